#!/usr/bin/env python3
"""Tests the checker both ways on scratch copies of /repo (never on /repo itself):
   selftest/benign/*.diff   behaviour-preserving edits  -> every check must stay silent
   selftest/mutants/*.diff  property-breaking edits      -> the checks named in the index must fire
Usage: selftest/run.py [benign|mutants|all] [name-filter] [--no-tests]
Scratch copies live under a mktemp directory outside /repo and /verif and are removed afterwards."""
import json, os, shutil, subprocess, sys, tempfile, time

HERE = os.path.dirname(os.path.abspath(__file__))
VERIF = os.path.dirname(HERE)
REPO = '/repo'
ALL = ['C%02d' % i for i in range(1, 20)]


def sh(cmd, cwd=None, env=None):
    return subprocess.run(cmd, shell=True, cwd=cwd, env=env, stdout=subprocess.PIPE, stderr=subprocess.STDOUT, text=True)


def scratch():
    d = tempfile.mkdtemp(prefix='hmsa-selftest-')
    for n in ('Cargo.toml', 'Cargo.lock', 'README.md', 'CHANGELOG.md', 'src', 'tests', 'LICENSE', 'rustfmt.toml'):
        p = os.path.join(REPO, n)
        if os.path.isdir(p):
            shutil.copytree(p, os.path.join(d, n))
        elif os.path.exists(p):
            shutil.copy(p, os.path.join(d, n))
    return d


def run_case(kind, name, diff, expect, run_tests=True, residual=None):
    d = scratch()
    try:
        r = sh('patch -p1 --no-backup-if-mismatch < %s' % diff, cwd=d)
        if r.returncode != 0:
            return 'PATCH-FAILED', r.stdout[-400:]
        if run_tests:
            env = dict(os.environ, CARGO_NET_OFFLINE='true', CARGO_TARGET_DIR=os.path.join(d, 'target'))
            r = sh('cargo test --workspace --offline 2>&1 | grep -E "^test result|error(\\[|:)|FAILED|panicked" | head -20', cwd=d, env=env)
            if 'error' in r.stdout or 'FAILED' in r.stdout or r.stdout.count('test result: ok') < 3:
                return 'DOES-NOT-PASS-TESTS', r.stdout[-600:]
        env = dict(os.environ, HMSA_REPO=d, HMSA_EVIDENCE=os.path.join(d, 'evidence'))
        fired = {}
        checks = ALL
        for pid in checks:
            r = sh('./check %s --tier quick' % pid, cwd=VERIF, env=env)
            v = [l for l in r.stdout.splitlines() if l.strip().startswith(('REFUTED', 'UNPROVEN'))]
            if r.returncode != 0:
                fired[pid] = v[:3] or [r.stdout[-300:]]
        if kind == 'benign':
            if fired and residual:
                return 'RESIDUAL', {'known limit': residual, 'fired': sorted(fired)}
            return ('OK' if not fired else 'FALSE-ALARM'), fired
        missing = [p for p in expect if p not in fired]
        return ('OK' if not missing else 'MISSED'), {'fired': sorted(fired), 'missing': missing, 'detail': {p: fired[p][:1] for p in list(fired)[:4]}}
    finally:
        shutil.rmtree(d, ignore_errors=True)


def main():
    which = sys.argv[1] if len(sys.argv) > 1 else 'all'
    flt = [a for a in sys.argv[2:] if not a.startswith('-')]
    run_tests = '--no-tests' not in sys.argv
    jobs = int([a[2:] for a in sys.argv if a.startswith('-j')][0]) if any(a.startswith('-j') for a in sys.argv) else 1
    bad = 0
    for kind in ('benign', 'mutants'):
        if which not in (kind, 'all'):
            continue
        idx = {}
        ip = os.path.join(HERE, kind, 'index.json')
        if os.path.exists(ip):
            idx = json.load(open(ip))
        names = [n for n in sorted(os.listdir(os.path.join(HERE, kind))) if n.endswith('.diff') and not (flt and not any(f in n for f in flt))]

        def one(n, kind=kind, idx=idx):
            t0 = time.time()
            status, info = run_case(kind, n, os.path.join(HERE, kind, n), idx.get(n, {}).get('expect', []), run_tests, idx.get(n, {}).get('residual'))
            return n, status, info, time.time() - t0
        from concurrent.futures import ThreadPoolExecutor
        with ThreadPoolExecutor(max_workers=jobs) as ex:
            for n, status, info, dt in ex.map(one, names):
                print('%-8s %-44s %-12s %5.1fs %s' % (kind, n, status, dt, json.dumps(info)[:700] if status != 'OK' or kind == 'mutants' else ''))
                sys.stdout.flush()
                if status not in ('OK', 'RESIDUAL'):
                    bad += 1
    print('selftest: %d problem(s)' % bad)
    return 1 if bad else 0


if __name__ == '__main__':
    sys.exit(main())
