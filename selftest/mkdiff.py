#!/usr/bin/env python3
"""helper: build a .diff from a list of (file, old, new) replacements against the current /repo tree"""
import os, shutil, subprocess, sys, tempfile


def make(kind, name, edits):
    d = tempfile.mkdtemp(prefix='hmsa-mk-')
    a, b = os.path.join(d, 'a'), os.path.join(d, 'b')
    shutil.copytree('/repo/src', os.path.join(a, 'src'))
    shutil.copytree('/repo/src', os.path.join(b, 'src'))
    for f, old, new in edits:
        p = os.path.join(b, f)
        s = open(p).read()
        assert s.count(old) >= 1, (name, f, old[:60])
        s = s.replace(old, new, 1)
        open(p, 'w').write(s)
    r = subprocess.run('diff -ru a b', shell=True, cwd=d, stdout=subprocess.PIPE, text=True)
    out = os.path.join(os.path.dirname(os.path.abspath(__file__)), kind, name + '.diff')
    open(out, 'w').write(r.stdout)
    shutil.rmtree(d)
    return out
