#!/usr/bin/env python3
"""mkscratch.py <dir> [diff]: fresh copy of /repo's sources in <dir> (outside /repo and /verif), optionally patched"""
import os, shutil, subprocess, sys
d = sys.argv[1]
assert d.startswith('/tmp/')
shutil.rmtree(d, ignore_errors=True)
os.makedirs(d)
for n in ('Cargo.toml', 'Cargo.lock', 'README.md', 'CHANGELOG.md', 'src', 'tests', 'LICENSE', 'rustfmt.toml'):
    p = os.path.join('/repo', n)
    if os.path.isdir(p):
        shutil.copytree(p, os.path.join(d, n))
    elif os.path.exists(p):
        shutil.copy(p, os.path.join(d, n))
if len(sys.argv) > 2:
    r = subprocess.run('patch -p1 -s --no-backup-if-mismatch < %s' % sys.argv[2], shell=True, cwd=d)
    sys.exit(r.returncode)
