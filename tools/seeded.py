#!/usr/bin/env python3
"""Confirm a seeded change independently (scratch copy of /repo), then run the checks against it.
   tools/seeded.py import <id> <dir-with-mutant.diff-and-tests/seeded_demo.rs> <property> "<needs>"   confirm + store under seeded/<id>/
   tools/seeded.py eval [<id> ...]                                                                     run all checks against stored changes
Scratch copies live under mktemp and are removed; /repo is never touched."""
import json, os, shutil, subprocess, sys, tempfile, time

HERE = os.path.dirname(os.path.dirname(os.path.abspath(__file__)))
SEEDED = os.path.join(HERE, 'seeded')
ALL = ['C%02d' % i for i in range(1, 20)]


def sh(cmd, cwd=None, env=None):
    return subprocess.run(cmd, shell=True, cwd=cwd, env=env, stdout=subprocess.PIPE, stderr=subprocess.STDOUT, text=True)


def scratch():
    d = tempfile.mkdtemp(prefix='hmsa-seeded-')
    for n in ('Cargo.toml', 'Cargo.lock', 'README.md', 'CHANGELOG.md', 'src', 'tests', 'LICENSE', 'rustfmt.toml'):
        p = os.path.join('/repo', n)
        if os.path.isdir(p):
            shutil.copytree(p, os.path.join(d, n))
        elif os.path.exists(p):
            shutil.copy(p, os.path.join(d, n))
    return d


def cargo_env(d):
    return dict(os.environ, CARGO_NET_OFFLINE='true', CARGO_TARGET_DIR=os.path.join(d, 'target'))


def confirm(patch, demo, demo_features=''):
    """-> dict of facts about the change"""
    res = {}
    d = scratch()
    try:
        env = cargo_env(d)
        shutil.copy(demo, os.path.join(d, 'tests', 'seeded_demo.rs'))
        r = sh('cargo test --offline %s --test seeded_demo 2>&1 | grep -E "^test result|error" | head -5' % demo_features, cwd=d, env=env)
        res['demo_without_change'] = r.stdout.strip()
        r = sh('patch -p1 --no-backup-if-mismatch < %s' % patch, cwd=d)
        res['patch_applies'] = r.returncode == 0
        r = sh('cargo test --offline %s --test seeded_demo 2>&1 | grep -E "^test result|error" | head -5' % demo_features, cwd=d, env=env)
        res['demo_with_change'] = r.stdout.strip()
        os.remove(os.path.join(d, 'tests', 'seeded_demo.rs'))
        r = sh('cargo test --workspace --offline 2>&1 | grep -E "^test result|error(\\[|:)|FAILED" | head -8', cwd=d, env=env)
        res['existing_suite_with_change'] = r.stdout.strip()
        r = sh('cargo build --offline --no-default-features 2>&1 | tail -1; cargo build --offline --features serde,serde_repr 2>&1 | tail -1', cwd=d, env=env)
        res['builds_other_configs'] = r.stdout.strip()
        res['confirmed'] = bool(res['patch_applies'] and 'ok' in res['demo_without_change'] and 'FAILED' in res['demo_with_change']
                                and res['existing_suite_with_change'].count('test result: ok') >= 3 and 'FAILED' not in res['existing_suite_with_change'])
    finally:
        shutil.rmtree(d, ignore_errors=True)
    return res


def evaluate(patch):
    d = scratch()
    fired = {}
    try:
        r = sh('patch -p1 --no-backup-if-mismatch < %s' % patch, cwd=d)
        if r.returncode != 0:
            return {'error': 'patch failed'}
        env = dict(os.environ, HMSA_REPO=d, HMSA_EVIDENCE=os.path.join(d, 'evidence'))
        for pid in ALL:
            r = sh('./check %s --tier quick' % pid, cwd=HERE, env=env)
            if r.returncode != 0:
                v = [l.strip() for l in r.stdout.splitlines() if l.strip().startswith(('REFUTED', 'UNPROVEN'))]
                w = [l.strip() for l in r.stdout.splitlines() if l.strip().startswith('why:')]
                fired[pid] = {'n': len(v), 'first': v[:2], 'why': w[:1]}
    finally:
        shutil.rmtree(d, ignore_errors=True)
    return fired


def main():
    if sys.argv[1] == 'import':
        sid, src, prop, needs = sys.argv[2], sys.argv[3], sys.argv[4], sys.argv[5]
        feats = sys.argv[6] if len(sys.argv) > 6 else ''
        out = os.path.join(SEEDED, sid)
        os.makedirs(out, exist_ok=True)
        shutil.copy(os.path.join(src, 'mutant.diff'), os.path.join(out, 'patch.diff'))
        shutil.copy(os.path.join(src, 'tests', 'seeded_demo.rs'), os.path.join(out, 'seeded_demo.rs'))
        c = confirm(os.path.join(out, 'patch.diff'), os.path.join(out, 'seeded_demo.rs'), feats)
        meta = {'id': sid, 'breaks_property': prop, 'needs_to_manifest': needs, 'origin': 'independent sub-agent given only the property text',
                'demo': 'tests/seeded_demo.rs (copy: seeded_demo.rs); run: cargo test --offline %s --test seeded_demo' % feats,
                'confirmation': c, 'what_i_ran': 'tools/seeded.py import (scratch copy of /repo: demo passes without the change, fails with it; '
                                                 'existing suite passes with it; builds in the other configurations)'}
        mp = os.path.join(out, 'meta.json')
        if os.path.exists(mp):
            old = json.load(open(mp))
            for k in ('checks_fired', 'caught_by_target_check'):
                if k in old:
                    meta[k] = old[k]
        json.dump(meta, open(mp, 'w'), indent=1)
        print(sid, 'confirmed' if c['confirmed'] else 'NOT CONFIRMED', json.dumps(c)[:600])
        return
    if sys.argv[1] == 'eval':
        ids = [a for a in sys.argv[2:] if not a.startswith('-')] or sorted(os.listdir(SEEDED))
        jobs = int([a[2:] for a in sys.argv if a.startswith('-j')][0]) if any(a.startswith('-j') for a in sys.argv) else 1
        ids = [sid for sid in ids if os.path.exists(os.path.join(SEEDED, sid, 'meta.json'))]

        def one(sid):
            t0 = time.time()
            return sid, evaluate(os.path.join(SEEDED, sid, 'patch.diff')), time.time() - t0
        from concurrent.futures import ThreadPoolExecutor
        with ThreadPoolExecutor(max_workers=jobs) as ex:
            for sid, fired, dt in ex.map(one, ids):
                mp = os.path.join(SEEDED, sid, 'meta.json')
                meta = json.load(open(mp))
                meta['checks_fired'] = fired
                meta['caught_by_target_check'] = meta['breaks_property'] in fired
                json.dump(meta, open(mp, 'w'), indent=1)
                print('%-12s target=%s caught=%s fired=%s %.0fs' % (sid, meta['breaks_property'], meta['caught_by_target_check'], sorted(fired), dt))
                sys.stdout.flush()


if __name__ == '__main__':
    main()
