#!/usr/bin/env python3
"""Regenerates /verif/MANIFEST.json from the table below (kept in one place so that the claimed
checks, their techniques and the not_applicable list cannot drift apart)."""
import json
import os

HERE = os.path.dirname(os.path.dirname(os.path.abspath(__file__)))

SA = 'static analysis: '
T_INTERP = SA + 'abstract interpretation over rustc MIR (value sets, bit provenance, path-sensitive) against an independent oracle table'
T_AUTO = SA + 'typestate automaton extracted from MIR by abstract interpretation, synchronous product with a reference automaton (bisimulation by construction)'
NOTE = ('Trusted: rustc front end / MIR lowering, builtin derives, core primitive semantics as modelled (hmsa/models.py), the analyser itself '
        '(validated both ways by selftest/ and seeded/). ')


def c(cat, text, ref, note, tech):
    return {'category': cat, 'text': text, 'design_ref': 'DESIGN.md section 4 / ' + ref, 'note': NOTE + note, 'technique': tech}


CLAIMED = {
    'C01': c('other', 'Decides every clause for RawShortMessage, StructuredShortMessage and an abstract factory inheriting the defaults: outcome summary '
             'of from_bytes over all status bytes, token identity of raw bytes, canonical bytes per status class, identity of value round trips for '
             'all 33 value shapes, codec round trips. All inputs are covered through a finite class partition; third-party from_bytes_unchecked bodies are outside the source.',
             'C01', 'Assumes 7-bit data bytes and in-range newtype fields (C04).', T_INTERP),
    'C02': c('other', 'Every default method of ShortMessage is interpreted for an abstract implementor per spec class and compared with the MIDI 1.0 oracle '
             '(uniformity inside a class is part of the obligation); type tables per enum variant and over all 256 bytes.',
             'C02', 'Assumes valid status byte and 7-bit data bytes.', T_INTERP),
    'C03': c('other', 'Override inventory with an equivalence obligation per override; accessor oracle evaluated on the structured form; taint analysis '
             '(non-interference) of information-free bytes over all default methods; token identity of converted bytes.',
             'C03', 'An out-of-repository implementor overriding defaults inconsistently is not decidable from the source.', SA + 'override inventory + abstract interpretation + taint (non-interference) analysis'),
    'C04': c('proof', 'Closed-writer proof of a data-structure invariant: private field, no mutable access path, every construction site and unsafe-constructor '
             'call site in every feature configuration receives an in-range operand (value-set abstract interpretation), From/TryFrom impl table passes '
             'type-range arithmetic, new/TryFrom/FromStr reject exactly out-of-range input, no impossible cfg. The configurations include the two '
             'feature sets as a release profile compiles them (debug assertions off), so a guard written as debug_assert! does not count.',
             'C04', 'Assume/guarantee on newtype values entering from outside, closed by the audit itself; core parser returns a value of the primitive type.',
             SA + 'closed-writer audit: abstract interpretation (value sets) of all MIR bodies per feature configuration + impl-table range arithmetic + rustc unexpected_cfgs lint'),
    'C05': c('other', 'Cast rule at every `as` of the conversion impls, value identity of all From/TryFrom impls by outcome summary, builtin-derive audit, '
             'MIN/MAX/default evaluation, delegation shape of Display/FromStr. The numeral grammar and printed text belong to core (trusted).',
             'C05', 'core integer parser / Display are trusted.', SA + 'cast rule over abstract value sets + outcome summaries + derive / delegation audit'),
    'C06': c('other', 'Each constructor interpreted for an abstract factory; bytes reaching from_bytes_unchecked compared bit by bit with the constructor oracle; '
             'generic constructors per message type; shorthands by outcome summary.',
             'C06', 'Accessor round trip follows by composition with C02/C01 (argued, same byte-level oracle).', T_INTERP),
    'C07': c('other', 'Panic set of new, accessors, encoder output by bit provenance, and composition of the encoder output with the extracted scanner '
             'transition function from every reachable typestate.',
             'C07', 'Relies on the C08 fixpoint for the reachable typestates.', SA + 'abstract interpretation + composition of extracted automaton rows'),
    'C08': c('model_checking', 'Exhaustive product of the transition function extracted from the public feed / reset (interpreted for each of the 16 '
             'concrete channels) with the reference automaton O2 over the abstract (value-independent) state space; induction over history length.',
             'C08', 'Interleaving with other channels reduces to this by C15; messages satisfy the ShortMessage contract.', T_AUTO),
    'C09': c('other', 'Constructors, accessors, the 16 encoder cases for an abstract factory against the MIDI 1.0 table, array conversion, struct invariant at every construction site.',
             'C09', 'Factory byte placement is C06.', T_INTERP),
    'C10': c('other', 'Composition of the encoder table with the extracted (N)RPN scanner transition function from every reachable typestate, running forms by typestate closure.',
             'C10', 'Relies on the C11 fixpoint and the C09 encoder table.', SA + 'abstract interpretation + composition of extracted automaton rows'),
    'C11': c('model_checking', 'Exhaustive product of the (N)RPN transition function extracted from the public feed / reset (each of the 16 concrete channels) '
             'with the reference automaton O3.',
             'C11', 'Interleaving with other channels reduces to this by C15.', T_AUTO),
    'C12': c('other', 'Product with O4 on all feed cells plus composition of every documented unit form on the extracted function from every reachable typestate.',
             'C12', 'The clock is an uninterpreted token; real-clock behaviour is not decided.', T_AUTO + '; unit forms by composition of rows'),
    'C13': c('other', 'Poll columns of the product (split on the recorded predicate elapsed(arrival) < timeout), identity of the store on non-firing polls, '
             'taint of clock tokens through feed, freshness of the stored stamp, timeout distribution.',
             'C13', 'Instant/Duration semantics trusted; real-clock behaviour not decided.', T_AUTO + ' + clock-token taint analysis'),
    'C14': c('other', 'Origin-token accounting (fixpoint over the extracted rows) checked row by row against provenance / completeness / linearity / no-loss / shape clauses.',
             'C14', 'On top of the O4 product.', SA + 'origin-token dataflow over the extracted automaton + product with the reference automaton'),
    'C15': c('proof', 'Ownership / non-interference proof: storage-shape audit; the public feed / poll interpreted for each concrete channel k from every '
             'reachable typestate with the other 15 elements as unconstrained tops and an explicit write log: no write to or read of another element, '
             'no write to a shared field (per-channel bits of a shared integer: the other bits unchanged by bit provenance); system messages are the '
             'identity and report nothing; reported channel on every row; identical start.',
             'C15', 'Rust aliasing rules; no unsafe code in the crate (checked).', SA + 'ownership / non-interference: storage-shape audit + abstract interpretation of the public scanner methods per channel with a write log (effect analysis)'),
    'C16': c('proof', 'Identity rows of the three extracted automata (structural identity of the abstract store), predicate true-sets over 0..127, constant '
             'table, sibling cross-check dispatch set = predicate true-set.',
             'C16', 'Messages satisfy the ShortMessage contract.', T_AUTO + '; predicate outcome summaries; sibling cross-check'),
    'C17': c('proof', 'Reset rows of all 16 explorations lead to initial pairs (timeout kept); the public reset interpreted with each element in turn arbitrary '
             '(loop unrolled) and every element compared with a new one; new()/default() structurally equal; plain-data and derive audits.',
             'C17', 'Duration::default() is zero (trusted).', SA + 'abstract interpretation (structural store comparison) + automaton reset rows + plain-data audit'),
    'C18': c('other', 'Allocation: effect analysis (proof) - no allocator in the no_std build, no heap type and no allocating callee in the std build. Panics: every '
             'panic-capable terminator enumerated and discharged as documented or dead under the validity assumptions / on reachable typestates.',
             'C18', 'core/std internals trusted; panic paths may allocate (excluded).', SA + 'effect analysis over MIR (types, callee crates) + panic-site enumeration discharged by abstract interpretation'),
    'C19': c('other', 'Construction-site audit of the derive-generated Deserialize bodies (serde configuration); impl inventory; unsafe-construct scan. '
             'The round-trip clause depends on serde at run time: only its shape condition is checked.',
             'C19', 'serde contract for try_from trusted (generated body still audited).', SA + 'construction-site audit by abstract interpretation of derive-generated MIR (serde configuration)'),
}
PENDING_REASON = 'check under construction in this round (static-analysis rule not armed yet); will be claimed once built'
NOT_APPLICABLE = {}


def main():
    props = [json.loads(l) for l in open(os.path.join(HERE, 'properties.jsonl'))]
    checks = []
    na = []
    for p in props:
        pid = p['id']
        c = CLAIMED.get(pid)
        if c is None:
            na.append({'property_id': pid, 'reason': NOT_APPLICABLE.get(pid, PENDING_REASON)})
            continue
        checks.append({
            'property_id': pid,
            'quick_cmd': './check %s --tier quick' % pid,
            'thorough_cmd': './check %s --tier thorough' % pid,
            'evidence_file': '/verif/evidence/%s.json' % pid,
            'replay_cmd_template': './check %s --replay {path}' % pid,
            'engine': 'hmsa',
            'level_claimed': {'category': c['category'], 'text': c['text'], 'design_ref': c['design_ref']},
            'level_note': c['note'],
            'technique': c['technique'],
        })
    m = {
        'version': 1,
        'setup_cmd': './setup.sh',
        'hooks': {
            'guard': 'helgoboss_midi_verif',
            'enable': 'none needed: the analyser reads the MIR of the unmodified crate; no hook is compiled into /repo',
            'baseline_off_cmd': 'cd /repo && cargo test --workspace --no-fail-fast --offline',
            'source_commits': [],
            'add_only': True,
        },
        'engines': [
            {'name': 'hmsa', 'path': '/verif/hmsa', 'serves_properties': sorted(CLAIMED),
             'kind_free_text': 'repository-specific static analyser: rustc_private MIR fact extractor (driver/), abstract interpreter over '
                               'MIR with value sets, bit provenance and typestates (hmsa/interp.py, terms.py, models.py), structural '
                               'audits (scan.py, audit.py), scanner automata extraction and product check (automata.py), oracles (spec/)'},
        ],
        'checks': checks,
        'not_applicable': na,
        'notes': 'Static analysis only: no check executes helgoboss-midi. See DESIGN.md. Genuine defects found and repaired are in known_findings.json.',
    }
    json.dump(m, open(os.path.join(HERE, 'MANIFEST.json'), 'w'), indent=1)
    print('claimed:', sorted(CLAIMED), 'not applicable / pending:', [x['property_id'] for x in na])


if __name__ == '__main__':
    main()
