#!/usr/bin/env python3
"""Regenerates /verif/MANIFEST.json from the table below (kept in one place so that the claimed
checks, their techniques and the not_applicable list cannot drift apart)."""
import json
import os

HERE = os.path.dirname(os.path.dirname(os.path.abspath(__file__)))

CLAIMED = {
    'C04': {
        'category': 'proof',
        'text': 'Closed-writer proof of a data-structure invariant: the tuple field of each newtype is private and no API hands out a '
                'mutable reference; every MIR construction site and every call of an unsafe constructor, in every feature '
                'configuration (std, no_std, serde), is shown by value-set abstract interpretation to receive an operand in range; '
                'the From/TryFrom impl table passes type-range arithmetic; outcome summaries of new/TryFrom/FromStr show rejection '
                'exactly of out-of-range input. All obligations must be discharged; the proof is modulo the trusted base listed.',
        'design_ref': 'DESIGN.md section 4 / C04',
        'note': 'Trusted: rustc MIR lowering, core primitive semantics as modelled, core integer parser returns a value of the '
                'primitive type. Assumes newtype values entering from outside satisfy the invariant (assume/guarantee, closed by the '
                'construction-site audit itself).',
        'technique': 'static analysis: abstract interpretation (value sets) over rustc MIR per feature configuration + impl-table range arithmetic + rustc unexpected_cfgs lint',
    },
}
PENDING_REASON = 'check under construction in this round (static-analysis rule not armed yet); will be claimed once built'
NOT_APPLICABLE = {}


def main():
    props = [json.loads(l) for l in open(os.path.join(HERE, 'properties.jsonl'))]
    checks = []
    na = []
    for p in props:
        pid = p['id']
        c = CLAIMED.get(pid)
        if c is None:
            na.append({'property_id': pid, 'reason': NOT_APPLICABLE.get(pid, PENDING_REASON)})
            continue
        checks.append({
            'property_id': pid,
            'quick_cmd': './check %s --tier quick' % pid,
            'thorough_cmd': './check %s --tier thorough' % pid,
            'evidence_file': '/verif/evidence/%s.json' % pid,
            'replay_cmd_template': './check %s --replay {path}' % pid,
            'engine': 'hmsa',
            'level_claimed': {'category': c['category'], 'text': c['text'], 'design_ref': c['design_ref']},
            'level_note': c['note'],
            'technique': c['technique'],
        })
    m = {
        'version': 1,
        'setup_cmd': './setup.sh',
        'hooks': {
            'guard': 'helgoboss_midi_verif',
            'enable': 'none needed: the analyser reads the MIR of the unmodified crate; no hook is compiled into /repo',
            'baseline_off_cmd': 'cd /repo && cargo test --workspace --no-fail-fast --offline',
            'source_commits': [],
            'add_only': True,
        },
        'engines': [
            {'name': 'hmsa', 'path': '/verif/hmsa', 'serves_properties': sorted(CLAIMED),
             'kind_free_text': 'repository-specific static analyser: rustc_private MIR fact extractor (driver/), abstract interpreter over '
                               'MIR with value sets, bit provenance and typestates (hmsa/interp.py, terms.py, models.py), structural '
                               'audits (scan.py, audit.py), scanner automata extraction and product check (automata.py), oracles (spec/)'},
        ],
        'checks': checks,
        'not_applicable': na,
        'notes': 'Static analysis only: no check executes helgoboss-midi. See DESIGN.md. Genuine defects found and repaired are in known_findings.json.',
    }
    json.dump(m, open(os.path.join(HERE, 'MANIFEST.json'), 'w'), indent=1)
    print('claimed:', sorted(CLAIMED), 'not applicable / pending:', [x['property_id'] for x in na])


if __name__ == '__main__':
    main()
