#!/usr/bin/env python3
"""run every claimed check (quick or thorough) and validate the evidence files against the schema"""
import json, os, subprocess, sys, time
HERE = os.path.dirname(os.path.dirname(os.path.abspath(__file__)))
tier = sys.argv[1] if len(sys.argv) > 1 else 'quick'
m = json.load(open(os.path.join(HERE, 'MANIFEST.json')))
bad = 0
t00 = time.time()
for c in m['checks']:
    cmd = c['quick_cmd'] if tier == 'quick' else c['thorough_cmd']
    t0 = time.time()
    p = subprocess.run(cmd, shell=True, cwd=HERE, stdout=subprocess.PIPE, stderr=subprocess.STDOUT, text=True)
    last = [l for l in p.stdout.splitlines() if l.startswith(c['property_id'])][-1:] or [p.stdout[-300:]]
    kf = [l for l in p.stdout.splitlines() if l.startswith('KNOWN-FINDING')]
    print('%-4s rc=%d %5.1fs %s %s' % (c['property_id'], p.returncode, time.time() - t0, last[0], kf or ''))
    if p.returncode != 0:
        bad += 1
        print(p.stdout[-1500:])
try:
    import jsonschema
    sch = json.load(open('/root/.vp/EVIDENCE.schema.json'))
    for c in m['checks']:
        e = json.load(open(c['evidence_file']))
        jsonschema.validate(e, sch)
        assert e['level'] == c['level_claimed']['category'], (c['property_id'], e['level'])
        if e['level'] == 'proof':
            assert e['coverage']['obligations'] == e['coverage']['discharged'], c['property_id']
    print('evidence valid')
except ImportError:
    print('jsonschema not available in this python; run with python3-vt')
print('total %.1fs, failing checks: %d' % (time.time() - t00, bad))
sys.exit(1 if bad else 0)
