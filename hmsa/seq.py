"""Abstract execution of a *sequence* of abstract inputs on a per-channel scanner (composition of
transition rows): used for the encoder/scanner inversion clauses (C07, C10, C12) and unit forms."""
from . import terms as T
from .terms import VS, C, vs_of
from .interp import Sc, Ag, Ar
from . import automata as A
from . import harness as H


class Path(object):
    __slots__ = ('outputs', 'state', 'cons', 'preds', 'dead', 'events')

    def __init__(self, state, cons):
        self.outputs, self.state, self.cons, self.preds, self.dead, self.events = [], state, cons, [], None, []


def run_sequence(F, model, roles, code_state, cons, inputs, k=0):
    """inputs: ('feed', status, d1, d2) | ('poll', ch term, want_expired True/False/None) | ('reset',), all on channel k
    -> list of Path; a path with .dead set ended in a non-returning outcome"""
    paths = [Path(code_state, dict(cons))]
    for inp in inputs:
        nxt = []
        for p in paths:
            if p.dead:
                nxt.append(p)
                continue
            if inp[0] == 'feed':
                I, outs = A.run_step(F, model, 'feed', p.state, p.cons, inp[1], inp[2], inp[3], k=k)
            elif inp[0] == 'poll':
                c2 = dict(p.cons)
                I, outs = A.run_step(F, model, 'poll', p.state, c2, k=k)
            else:
                I, outs = A.run_step(F, model, 'reset', p.state, p.cons, k=k)
            for o in outs:
                q = Path(None, o.st.cons)
                q.outputs = list(p.outputs)
                q.preds = list(p.preds) + [list(o.st.preds)]
                q.events = list(p.events) + [list(o.st.events)]
                if o.kind != 'return' or o.interference:
                    q.dead = '%s outcome at step %d: %s' % (o.kind, len(p.outputs) + 1, o.interference or o.why)
                    q.state = p.state
                    nxt.append(q)
                    continue
                if inp[0] == 'poll' and inp[2] is not None:
                    before, _, _ = A.elapsed_vs_timeout(o.st.preds)
                    if before is not None and before == inp[2]:
                        continue      # recorded "elapsed < timeout" contradicts the scenario
                outs_m = A.extract_outputs(F, roles, o.value, o.st) if inp[0] != 'reset' else []
                if outs_m is None:
                    q.dead = 'malformed result %r' % (o.value,)
                    q.state = p.state
                    nxt.append(q)
                    continue
                q.outputs.append(outs_m)
                q.state = o.new_state
                nxt.append(q)
        paths = _dedupe(nxt)
    return paths


def _dedupe(paths):
    """paths that reached the same state with the same reports under the same constraints are one path
    (equivalent ways through the default methods of the message trait would otherwise multiply per step)"""
    from .interp import val_key
    seen, out = set(), []
    for p in paths:
        try:
            k = (p.dead, val_key(p.state) if p.state is not None else None, repr(p.outputs),
                 tuple(sorted((repr(t), v.key()) for t, v in p.cons.items())), repr(p.preds))
        except Exception:       # noqa
            out.append(p)
            continue
        if k in seen:
            continue
        seen.add(k)
        out.append(p)
    return out


def cc_status(ch_term, cons):
    return T.mk_op('BitOr', C(0xB0), ch_term, None, cons)
