"""E2 abstract domain: terms over input tokens, value sets, known-bit / bit-provenance vectors,
backward refinement.  Non-relational: every constraint is a value set attached to one term.

A *term* denotes a mathematical integer (or an opaque value):
  ('c', n)                       constant
  ('t', name, ty)                input token; ty is an int type name, 'bool' or 'opaque'
  ('cast', ty, a)                `a as ty` (wrapping into ty)
  ('op', name, a, b, ty|None)    binary op; wrapped into ty when ty is given, exact when None
  ('cmp', op, a, b)              comparison, value 0/1 ; op in eq ne lt le gt ge
  ('not', a)                     boolean negation
  ('app', f, (args...))          uninterpreted application (e.g. elapsed(t)), opaque
"""

INF = 1 << 200
EXPL = 1024          # largest explicit value set

INT_BITS = {'u8': 8, 'u16': 16, 'u32': 32, 'u64': 64, 'u128': 128, 'usize': 64,
            'i8': 8, 'i16': 16, 'i32': 32, 'i64': 64, 'i128': 128, 'isize': 64}


def irange(name):
    if name == 'bool':
        return (0, 1)
    bits = INT_BITS[name]
    return (0, (1 << bits) - 1) if name[0] == 'u' else (-(1 << (bits - 1)), (1 << (bits - 1)) - 1)


def is_int(name):
    return name in INT_BITS


class VS(object):
    """value set: interval [lo,hi], refined by an explicit set when small."""
    __slots__ = ('lo', 'hi', 's')

    def __init__(self, lo, hi, st=None):
        if st is not None:
            st = frozenset(st)
            if st:
                lo, hi = min(st), max(st)
                if len(st) > EXPL:
                    st = None
            else:
                lo, hi = 1, 0
        elif lo <= hi and hi - lo < EXPL:
            st = frozenset(range(lo, hi + 1))
        self.lo, self.hi, self.s = lo, hi, st

    @staticmethod
    def of(st):
        return VS(0, -1, st)

    @staticmethod
    def one(v):
        return VS(v, v)

    def empty(self):
        return self.lo > self.hi

    def single(self):
        return self.lo == self.hi

    def size(self):
        if self.empty():
            return 0
        return len(self.s) if self.s is not None else self.hi - self.lo + 1

    def has(self, x):
        if self.s is not None:
            return x in self.s
        return self.lo <= x <= self.hi

    def meet(self, o):
        if self.empty() or o.empty():
            return EMPTY
        if self.s is not None and o.s is not None:
            return VS.of(self.s & o.s)
        if self.s is not None:
            return VS.of([x for x in self.s if o.lo <= x <= o.hi])
        if o.s is not None:
            return VS.of([x for x in o.s if self.lo <= x <= self.hi])
        return VS(max(self.lo, o.lo), min(self.hi, o.hi))

    def join(self, o):
        if self.empty():
            return o
        if o.empty():
            return self
        if self.s is not None and o.s is not None:
            return VS.of(self.s | o.s)
        return VS(min(self.lo, o.lo), max(self.hi, o.hi))

    def minus(self, o):
        if self.empty() or o.empty():
            return self
        if self.s is not None:
            return VS.of([x for x in self.s if not o.has(x)])
        if o.s is None or o.size() == o.hi - o.lo + 1:
            # o is a full interval
            if o.lo <= self.lo and self.hi <= o.hi:
                return EMPTY
            if o.lo <= self.lo <= o.hi:
                return VS(o.hi + 1, self.hi)
            if o.lo <= self.hi <= o.hi:
                return VS(self.lo, o.lo - 1)
            return self
        lo, hi = self.lo, self.hi
        while lo <= hi and o.has(lo):
            lo += 1
        while hi >= lo and o.has(hi):
            hi -= 1
        return VS(lo, hi)

    def subset(self, o):
        if self.empty():
            return True
        if o.empty():
            return False
        if o.s is not None:
            if self.s is not None:
                return self.s <= o.s
            return False
        return o.lo <= self.lo and self.hi <= o.hi

    def map(self, f):
        if self.s is not None:
            return VS.of({f(x) for x in self.s})
        return None

    def key(self):
        if self.empty():
            return ()
        if self.s is not None and len(self.s) != self.hi - self.lo + 1:
            return ('s',) + tuple(sorted(self.s))
        return (self.lo, self.hi)

    def __eq__(self, o):
        return isinstance(o, VS) and self.key() == o.key()

    def __ne__(self, o):
        return not self.__eq__(o)

    def __hash__(self):
        return hash(self.key())

    def __repr__(self):
        if self.empty():
            return '{}'
        if self.single():
            return '{%d}' % self.lo
        if self.s is not None and len(self.s) <= 6 and len(self.s) != self.hi - self.lo + 1:
            return '{' + ','.join(map(str, sorted(self.s))) + '}'
        dense = self.s is None or len(self.s) == self.hi - self.lo + 1
        return '[%s..%s]%s' % (_n(self.lo), _n(self.hi), '' if dense else '#%d' % len(self.s))


def _n(x):
    if x >= INF:
        return '+inf'
    if x <= -INF:
        return '-inf'
    return str(x)


EMPTY = VS(1, 0)
TOPVS = VS(-INF, INF)
BOOLVS = VS(0, 1)


def ty_vs(ty):
    if ty == 'opaque' or ty is None:
        return TOPVS
    return VS(*irange(ty))


def wrap_val(x, ty):
    lo, hi = irange(ty)
    return ((x - lo) % (hi - lo + 1)) + lo


def wrap_vs(vs, ty):
    if ty is None or vs.empty():
        return vs
    r = ty_vs(ty)
    if vs.subset(r):
        return vs
    if vs.s is not None:
        return VS.of({wrap_val(x, ty) for x in vs.s})
    return r


def maybe_ones(vs):
    """mask of bit positions that may be 1 (only for non-negative sets)."""
    if vs.empty():
        return 0
    if vs.s is not None:
        m = 0
        for x in vs.s:
            m |= x
        return m
    return (1 << vs.hi.bit_length()) - 1


def must_ones(vs):
    if vs.empty() or vs.s is None:
        if not vs.empty() and vs.single():
            return vs.lo
        # common high bits of lo and hi
        if vs.empty():
            return 0
        x = vs.lo ^ vs.hi
        n = x.bit_length()
        return (vs.lo >> n) << n
    m = -1
    for x in vs.s:
        m &= x
    return m


_PYOP = {
    'BitAnd': lambda x, y: x & y, 'BitOr': lambda x, y: x | y, 'BitXor': lambda x, y: x ^ y,
    'Add': lambda x, y: x + y, 'Sub': lambda x, y: x - y, 'Mul': lambda x, y: x * y,
    'Shl': lambda x, y: x << y if 0 <= y < 256 else 0, 'Shr': lambda x, y: x >> y if 0 <= y < 256 else 0,
    'Div': lambda x, y: (abs(x) // abs(y)) * (1 if (x < 0) == (y < 0) else -1) if y else 0,
    'Rem': lambda x, y: (abs(x) % abs(y)) * (1 if x >= 0 else -1) if y else 0,
}
NEG = {'ge': 'lt', 'lt': 'ge', 'le': 'gt', 'gt': 'le', 'eq': 'ne', 'ne': 'eq'}
SWAP = {'ge': 'le', 'le': 'ge', 'lt': 'gt', 'gt': 'lt', 'eq': 'eq', 'ne': 'ne'}
_CMP = {'eq': lambda a, b: a == b, 'ne': lambda a, b: a != b, 'lt': lambda a, b: a < b,
        'le': lambda a, b: a <= b, 'gt': lambda a, b: a > b, 'ge': lambda a, b: a >= b}


def C(n):
    return ('c', int(n))


def T(name, ty):
    return ('t', name, ty)


def is_const(t):
    return t[0] == 'c'


def tokens_of(t, acc=None):
    acc = set() if acc is None else acc
    k = t[0]
    if k == 't':
        acc.add(t)
    elif k == 'cast':
        tokens_of(t[2], acc)
    elif k == 'op':
        tokens_of(t[2], acc)
        tokens_of(t[3], acc)
    elif k == 'cmp':
        tokens_of(t[2], acc)
        tokens_of(t[3], acc)
    elif k == 'not':
        tokens_of(t[1], acc)
    elif k == 'app':
        for a in t[2]:
            tokens_of(a, acc)
    return acc


def tstr(t):
    k = t[0]
    if k == 'c':
        return str(t[1])
    if k == 't':
        return t[1]
    if k == 'cast':
        return '(%s as %s)' % (tstr(t[2]), t[1])
    if k == 'op':
        sym = {'BitAnd': '&', 'BitOr': '|', 'BitXor': '^', 'Add': '+', 'Sub': '-', 'Mul': '*', 'Shl': '<<', 'Shr': '>>', 'Div': '/', 'Rem': '%'}.get(t[1], t[1])
        return '(%s %s %s)%s' % (tstr(t[2]), sym, tstr(t[3]), ':%s' % t[4] if t[4] else '')
    if k == 'cmp':
        sym = {'eq': '==', 'ne': '!=', 'lt': '<', 'le': '<=', 'gt': '>', 'ge': '>='}[t[1]]
        return '(%s %s %s)' % (tstr(t[2]), sym, tstr(t[3]))
    if k == 'not':
        return '!' + tstr(t[1])
    if k == 'app':
        return '%s(%s)' % (t[1], ', '.join(tstr(a) for a in t[2]))
    return str(t)


# ------------------------------------------------------------------ forward value sets

def vs_of(t, cons):
    k = t[0]
    if k == 'c':
        return VS.one(t[1])
    if k == 't':
        c = cons.get(t)
        return c if c is not None else ty_vs(t[2])
    r = _vs(t, cons)
    c = cons.get(t)
    if c is not None:
        r = r.meet(c)
    return r


def eval_term(t, env):
    """value of a term under an assignment of its tokens (used only to compute the best value set of a
    term that depends on a *single* token: the image of that token's own abstract set)"""
    k = t[0]
    if k == 'c':
        return t[1]
    if k == 't':
        return env[t]
    if k == 'cast':
        return wrap_val(eval_term(t[2], env), t[1])
    if k == 'op':
        a, b = eval_term(t[2], env), eval_term(t[3], env)
        if t[1] in ('Div', 'Rem') and b == 0:
            raise ZeroDivisionError
        v = _PYOP[t[1]](a, b)
        return wrap_val(v, t[4]) if t[4] else v
    if k == 'cmp':
        return int(_CMP[t[1]](eval_term(t[2], env), eval_term(t[3], env)))
    if k == 'not':
        return 1 - eval_term(t[1], env)
    raise KeyError(k)


def _single_token_image(t, cons):
    toks = tokens_of(t)
    if len(toks) != 1:
        return None
    tok = next(iter(toks))
    if tok[2] == 'opaque':
        return None
    v = vs_of(tok, cons)
    if v.s is None or len(v.s) > EXPL:
        return None
    try:
        return VS.of({eval_term(t, {tok: x}) for x in v.s})
    except (KeyError, ZeroDivisionError):
        return None


def _vs(t, cons):
    k = t[0]
    if k in ('op', 'cmp', 'cast') and _nested(t):
        img = _single_token_image(t, cons)
        if img is not None:
            return img
    if k == 'cast':
        return wrap_vs(vs_of(t[2], cons), t[1])
    if k == 'op':
        a, b = vs_of(t[2], cons), vs_of(t[3], cons)
        return wrap_vs(_vs_op(t[1], a, b), t[4])
    if k == 'cmp':
        a, b = vs_of(t[2], cons), vs_of(t[3], cons)
        return _vs_cmp(t[1], a, b)
    if k == 'not':
        a = vs_of(t[1], cons)
        return VS.of({1 - x for x in a.s}) if a.s is not None else BOOLVS
    return TOPVS


def _nested(t):
    """does the same token possibly occur on both sides (only then is the pointwise image more precise)"""
    if t[0] == 'cast':
        return _nested(t[2]) if t[2][0] in ('op', 'cmp', 'cast') else False
    a, b = t[2], t[3]
    return a[0] != 'c' and b[0] != 'c'


def _vs_op(op, a, b):
    if a.empty() or b.empty():
        return EMPTY
    f = _PYOP.get(op)
    if f is None:
        return TOPVS
    if a.s is not None and b.s is not None and len(a.s) * len(b.s) <= 70000:
        if op in ('Div', 'Rem') and 0 in b.s:
            return TOPVS
        return VS.of({f(x, y) for x in a.s for y in b.s})
    nn = a.lo >= 0 and b.lo >= 0
    if op == 'Add':
        return VS(a.lo + b.lo, a.hi + b.hi)
    if op == 'Sub':
        return VS(a.lo - b.hi, a.hi - b.lo)
    if nn:
        if op == 'BitAnd':
            return VS(0, min(a.hi, b.hi, maybe_ones(a) & maybe_ones(b)))
        if op == 'BitOr':
            return VS(max(a.lo, b.lo), maybe_ones(a) | maybe_ones(b))
        if op == 'BitXor':
            return VS(0, maybe_ones(a) | maybe_ones(b))
        if op == 'Mul':
            return VS(a.lo * b.lo, a.hi * b.hi)
        if op == 'Shr' and b.hi < 256:
            return VS(a.lo >> b.hi, a.hi >> b.lo)
        if op == 'Shl' and b.hi < 256:
            return VS(a.lo << b.lo, a.hi << b.hi)
        if op == 'Div' and b.lo > 0:
            return VS(a.lo // b.hi, a.hi // b.lo)
        if op == 'Rem' and b.lo > 0:
            return VS(0, min(a.hi, b.hi - 1))
    return TOPVS


def _vs_cmp(op, a, b):
    if a.empty() or b.empty():
        return EMPTY
    if op == 'ge':
        if a.lo >= b.hi:
            return VS.one(1)
        if a.hi < b.lo:
            return VS.one(0)
    elif op == 'le':
        if a.hi <= b.lo:
            return VS.one(1)
        if a.lo > b.hi:
            return VS.one(0)
    elif op == 'lt':
        if a.hi < b.lo:
            return VS.one(1)
        if a.lo >= b.hi:
            return VS.one(0)
    elif op == 'gt':
        if a.lo > b.hi:
            return VS.one(1)
        if a.hi <= b.lo:
            return VS.one(0)
    elif op == 'eq':
        if a.single() and b.single():
            return VS.one(int(a.lo == b.lo))
        if a.meet(b).empty():
            return VS.one(0)
    elif op == 'ne':
        if a.single() and b.single():
            return VS.one(int(a.lo != b.lo))
        if a.meet(b).empty():
            return VS.one(1)
    return BOOLVS


# ------------------------------------------------------------------ smart constructors

def mk_cast(ty, a, cons):
    if a[0] == 'c':
        return C(wrap_val(a[1], ty))
    if ty == 'opaque':
        return a
    va = vs_of(a, cons)
    if va.subset(ty_vs(ty)):
        return a                      # value preserving: the mathematical value is unchanged
    if a[0] == 'cast' and INT_BITS.get(a[1], 0) >= INT_BITS[ty] and a[1][0] == ty[0] == 'u':
        return mk_cast(ty, a[2], cons)   # (x as u16) as u8 == x as u8 for unsigned truncation
    return ('cast', ty, a)


def mk_op(op, a, b, ty, cons):
    """ty: result int type (wrapping semantics) or None for exact arithmetic."""
    if a[0] == 'c' and b[0] == 'c' and op in _PYOP:
        if op in ('Div', 'Rem') and b[1] == 0:
            return ('op', op, a, b, ty)
        v = _PYOP[op](a[1], b[1])
        return C(wrap_val(v, ty) if ty else v)
    # an operand that can only have one value under the constraints of this path is that constant
    # (a shift amount `status & 15` with the status byte fixed, for instance)
    if b[0] not in ('c', 'app') and not (b[0] == 't' and b[2] == 'opaque'):
        vb = vs_of(b, cons)
        if vb.single():
            b = C(vb.lo)
            if a[0] == 'c' and op in _PYOP and not (op in ('Div', 'Rem') and b[1] == 0):
                v = _PYOP[op](a[1], b[1])
                return C(wrap_val(v, ty) if ty else v)
    # canonical operand order for commutative ops: constant last, otherwise by repr
    if op in ('BitAnd', 'BitOr', 'BitXor', 'Add', 'Mul'):
        if a[0] == 'c' or (b[0] != 'c' and repr(a) > repr(b)):
            a, b = b, a
    if b[0] == 'c':
        n = b[1]
        if n == 0 and op in ('BitOr', 'BitXor', 'Add', 'Sub', 'Shl', 'Shr'):
            return a
        if n == 0 and op in ('BitAnd', 'Mul'):
            return C(0)
        if n == 1 and op in ('Mul', 'Div'):
            return a
        va = vs_of(a, cons)
        if op == 'BitAnd' and va.lo >= 0 and (maybe_ones(va) & ~n) == 0:
            return a
    t = ('op', op, a, b, ty)
    if ty is not None:
        m = _vs_op(op, vs_of(a, cons), vs_of(b, cons))
        if not m.empty() and m.subset(ty_vs(ty)) and m.lo > -INF and m.hi < INF:
            t = ('op', op, a, b, None)     # no wrap-around possible: exact
    # a bit-level expression all of whose bits are known is a constant: ((x & !8 | 8) >> 3) & 1 is 1
    if op in ('BitAnd', 'Shr') and b[0] == 'c' and a[0] == 'op':
        try:
            rb = _bits(t, cons, 32)
        except Exception:      # noqa
            rb = None
        if rb is not None and all(x in (0, 1) for x in rb):
            return C(sum(x << j for j, x in enumerate(rb)))
    # exact (x +/- c0) +/- c1  ->  x +/- (c0 +/- c1); in particular (x + 32) - 32 -> x
    if t[4] is None and op in ('Add', 'Sub') and b[0] == 'c' and a[0] == 'op' and a[1] in ('Add', 'Sub') and a[4] is None and a[3][0] == 'c':
        k0 = a[3][1] if a[1] == 'Add' else -a[3][1]
        k1 = b[1] if op == 'Add' else -b[1]
        k = k0 + k1
        if k == 0:
            return a[2]
        return ('op', 'Add' if k > 0 else 'Sub', a[2], C(abs(k)), None)
    return t


def mk_cmp(op, a, b, cons):
    if a[0] == 'c' and b[0] == 'c':
        return C(int(_CMP[op](a[1], b[1])))
    if a == b and a[0] != 'app':
        return C(int(op in ('eq', 'le', 'ge')))
    t = ('cmp', op, a, b)
    v = vs_of(t, cons)
    if v.single():
        return C(v.lo)
    # two differently spelled terms for the same number (bit provenance): (w >> 7) & 0x1f of w = tag | n << 7 | v is n
    if (a[0] in ('op', 'cast') or b[0] in ('op', 'cast')) and a[0] != 'c' and b[0] != 'c':
        try:
            if same_value(a, b, cons):
                return C(int(op in ('eq', 'le', 'ge')))
        except Exception:      # noqa
            pass
    return t


def mk_not(a, cons):
    if a[0] == 'c':
        return C(1 - a[1])
    if a[0] == 'not':
        return a[1]
    if a[0] == 'cmp':
        return ('cmp', NEG[a[1]], a[2], a[3])
    return ('not', a)


# ------------------------------------------------------------------ backward refinement

def refine(t, vs, cons):
    """Constrain term t to lie in vs (in place on cons). Returns False if infeasible."""
    k = t[0]
    if k == 'app' or (k == 't' and t[2] == 'opaque'):
        return True                  # opaque values carry no numeric constraint
    cur = vs_of(t, cons).meet(vs)
    if cur.empty():
        return False
    if k == 'c':
        return True
    if k == 't':
        cons[t] = cur
        return True
    if k == 'cast':
        a = vs_of(t[2], cons)
        if a.subset(ty_vs(t[1])):
            return refine(t[2], cur, cons)
        if a.s is not None:
            keep = [x for x in a.s if cur.has(wrap_val(x, t[1]))]
            return refine(t[2], VS.of(keep), cons) if keep else False
        cons[t] = cur
        return True
    if k == 'op':
        op, ta, tb, ty = t[1], t[2], t[3], t[4]
        a, b = vs_of(ta, cons), vs_of(tb, cons)
        f = _PYOP.get(op)
        w = (lambda x: wrap_val(x, ty)) if ty else (lambda x: x)
        ok = True
        if f is not None and a.s is not None and b.s is not None and len(a.s) * len(b.s) <= 70000:
            ka, kb = set(), set()
            for x in a.s:
                for y in b.s:
                    if op in ('Div', 'Rem') and y == 0:
                        ka.add(x)
                        kb.add(y)
                    elif cur.has(w(f(x, y))):
                        ka.add(x)
                        kb.add(y)
            if not ka:
                return False
            if len(ka) < len(a.s):
                ok = ok and refine(ta, VS.of(ka), cons)
            if len(kb) < len(b.s):
                ok = ok and refine(tb, VS.of(kb), cons)
            return ok
        if ty is None and b.single() and op in ('Add', 'Sub'):
            n = b.lo if op == 'Add' else -b.lo
            return refine(ta, VS(cur.lo - n if cur.lo > -INF else -INF, cur.hi - n if cur.hi < INF else INF), cons)
        if ty is None and op == 'Shr' and b.single() and a.lo >= 0 and cur.s is None:
            n = b.lo
            return refine(ta, VS(cur.lo << n, ((cur.hi + 1) << n) - 1), cons)
        cons[t] = cur
        return True
    if k == 'not':
        a = vs_of(t[1], cons)
        if cur.s is None:
            return True
        return refine(t[1], VS.of({1 - x for x in cur.s}), cons)
    if k == 'cmp':
        if not cur.single():
            return True
        op = t[1] if cur.lo == 1 else NEG[t[1]]
        ta, tb = t[2], t[3]
        a, b = vs_of(ta, cons), vs_of(tb, cons)
        if op == 'ge':
            return refine(ta, VS(b.lo, INF), cons) and refine(tb, VS(-INF, vs_of(ta, cons).hi), cons)
        if op == 'gt':
            return refine(ta, VS(b.lo + 1, INF), cons) and refine(tb, VS(-INF, vs_of(ta, cons).hi - 1), cons)
        if op == 'le':
            return refine(ta, VS(-INF, b.hi), cons) and refine(tb, VS(vs_of(ta, cons).lo, INF), cons)
        if op == 'lt':
            return refine(ta, VS(-INF, b.hi - 1), cons) and refine(tb, VS(vs_of(ta, cons).lo + 1, INF), cons)
        if op == 'eq':
            return refine(ta, b, cons) and refine(tb, vs_of(ta, cons), cons)
        if op == 'ne':
            ok = True
            if b.single():
                ok = ok and refine(ta, a.minus(b), cons)
            if a.single():
                ok = ok and refine(tb, b.minus(a), cons)
            return ok
        return True
    # opaque applications: remember the constraint on the term itself
    cons[t] = cur
    return True


# ------------------------------------------------------------------ bit provenance

UNK = ('?',)


def bits_of(t, cons, width=32):
    """Per-bit provenance of a non-negative term: list of 0 | 1 | ('b', token, j) | UNK (LSB first).
    Returns None when the term may be negative / is opaque."""
    vs = vs_of(t, cons)
    if vs.empty() or vs.lo < 0 or vs.hi >= INF:
        return None
    if width < 32:
        # intermediate results (before shifts / truncating casts) need more room than the result
        full = bits_of(t, cons, 32)
        return full[:width] if full is not None else None
    raw = _bits(t, cons, width)
    if raw is None:
        raw = [UNK] * width
    # improve with the value set
    mo, mu = maybe_ones(vs), must_ones(vs)
    out = []
    for j in range(width):
        bj = raw[j]
        if not (mo >> j) & 1:
            bj = 0
        elif (mu >> j) & 1:
            bj = 1
        out.append(bj)
    return out


def _cbits(n, width):
    return [(n >> j) & 1 for j in range(width)]


def _bits(t, cons, width):
    k = t[0]
    if k == 'c':
        return _cbits(t[1], width) if t[1] >= 0 else None
    if k == 't':
        if t[2] == 'opaque':
            return None
        vs = vs_of(t, cons)
        if vs.lo < 0:
            return None
        mo, mu = maybe_ones(vs), must_ones(vs)
        return [0 if not (mo >> j) & 1 else 1 if (mu >> j) & 1 else ('b', t, j) for j in range(width)]
    if k == 'cast':
        inner = bits_of(t[2], cons, width)
        if inner is None:
            return None
        tw = INT_BITS.get(t[1])
        if tw is None:
            return None
        if t[1][0] == 'i':
            # signed target: only sound when the result is known non-negative (checked by caller via vs)
            tw -= 1
        return [inner[j] if j < tw else 0 for j in range(width)]
    if k == 'op':
        op, ta, tb, ty = t[1], t[2], t[3], t[4]
        a = bits_of(ta, cons, width)
        vb = vs_of(tb, cons)
        res = None
        if a is not None and vb.single() and vb.lo >= 0:
            n = vb.lo
            if op == 'Shl' and n < width:
                res = [0] * n + a[:width - n]
            elif op == 'Shr' and n < width:
                res = a[n:] + [0] * n
            elif op == 'Mul' and n > 0 and n & (n - 1) == 0:
                s = n.bit_length() - 1
                res = [0] * s + a[:width - s]
            elif op == 'Div' and n > 0 and n & (n - 1) == 0:
                s = n.bit_length() - 1
                res = a[s:] + [0] * s
            elif op == 'Rem' and n > 0 and n & (n - 1) == 0:
                s = n.bit_length() - 1
                res = [a[j] if j < s else 0 for j in range(width)]
            elif op == 'Sub':
                # clearing bits that are known to be set
                if all(a[j] == 1 for j in range(width) if (n >> j) & 1) and n < (1 << width):
                    res = [0 if (n >> j) & 1 else a[j] for j in range(width)]
        if res is None and op in ('BitAnd', 'BitOr', 'BitXor', 'Add'):
            b = bits_of(tb, cons, width)
            if a is not None and b is not None:
                if op == 'Add':
                    if all(a[j] == 0 or b[j] == 0 for j in range(width)):
                        res = [b[j] if a[j] == 0 else a[j] for j in range(width)]
                else:
                    res = [_bitop(op, a[j], b[j]) for j in range(width)]
        if res is None:
            return None
        if ty is not None:
            tw = INT_BITS[ty] - (1 if ty[0] == 'i' else 0)
            res = [res[j] if j < tw else 0 for j in range(width)]
        return res
    if k == 'cmp':
        # (x != 0) / (x > 0) / (x >= 1) / (x == m) where x has a single possibly-set bit m: the value is that bit
        op, a, b = t[1], t[2], t[3]
        if b[0] == 'c':
            xb = bits_of(a, cons, width)
            if xb is not None:
                nz = [j for j in range(width) if xb[j] != 0]
                if len(nz) == 1 and xb[nz[0]] not in (1, UNK):
                    m = 1 << nz[0]
                    if (op == 'ne' and b[1] == 0) or (op == 'gt' and b[1] == 0) or (op == 'ge' and b[1] == 1 and m == 1) \
                            or (op == 'eq' and b[1] == m) or (op == 'ge' and b[1] == m):
                        return [xb[nz[0]]] + [0] * (width - 1)
        return None
    return None


def _bitop(op, x, y):
    if op == 'BitAnd':
        if x == 0 or y == 0:
            return 0
        if x == 1:
            return y
        if y == 1:
            return x
        return x if x == y and x != UNK else UNK
    if op == 'BitOr':
        if x == 1 or y == 1:
            return 1
        if x == 0:
            return y
        if y == 0:
            return x
        return x if x == y and x != UNK else UNK
    if op == 'BitXor':
        if x == 0:
            return y
        if y == 0:
            return x
        if x == y and x != UNK:
            return 0
        return UNK
    return UNK


def bits_str(bits):
    """compact rendering, MSB first, e.g. 1001ssss."""
    if bits is None:
        return 'unknown'
    hi = len(bits)
    while hi > 1 and bits[hi - 1] == 0:
        hi -= 1
    out = []
    for j in reversed(range(hi)):
        bj = bits[j]
        if bj in (0, 1):
            out.append(str(bj))
        elif bj == UNK:
            out.append('?')
        else:
            out.append('%s[%d]' % (bj[1][1], bj[2]))
    return ' '.join(out)


def known(bits):
    return bits is not None and all(x != UNK for x in bits)


def same_value(a, b, cons, width=32):
    """True when the two terms provably denote the same non-negative integer (bit-provenance
    equality, which is invariant under re-spelling of masks, shifts, adds of disjoint bits)."""
    if a == b:
        return True
    ba, bb = bits_of(a, cons, width), bits_of(b, cons, width)
    return known(ba) and known(bb) and ba == bb


# ------------------------------------------------------------------ relational predicates

def norm_pred(t, truth, cons):
    """Normal form of a branch condition that relates two non-constant terms.
    Returns (kind, payload, truth): kind 'eq' with payload = frozenset of unordered bit pairs
    (or the ordered pair of terms when bits are unavailable), kind 'lt' with payload (a, b)."""
    while t[0] == 'not':
        t, truth = t[1], not truth
    if t[0] != 'cmp':
        return ('term', t, truth)
    op, a, b = t[1], t[2], t[3]
    if op == 'ne':
        op, truth = 'eq', not truth
    if op == 'eq':
        # (x - y) == z with an exact subtraction  <=>  x == y + z   (`n.checked_sub(m) == Some(32)` for `n == m + 32`)
        for u, w in ((a, b), (b, a)):
            if u[0] == 'op' and u[1] == 'Sub' and u[4] is None and vs_of(u, cons).lo >= 0:
                a, b = u[2], mk_op('Add', u[3], w, None, cons)
                break
        # (x ^ y) == c   <=>   x == y ^ c : compare bit by bit (c constant)
        for u, w in ((a, b), (b, a)):
            if u[0] == 'op' and u[1] == 'BitXor' and vs_of(w, cons).single() and vs_of(w, cons).lo >= 0:
                cval = vs_of(w, cons).lo
                bx, by = bits_of(u[2], cons, 64), bits_of(u[3], cons, 64)
                if known(bx) and known(by):
                    pairs = set()
                    ok = True
                    for j, (x, y) in enumerate(zip(bx, by)):
                        cj = (cval >> j) & 1
                        if x in (0, 1) and y in (0, 1):
                            if (x ^ y) != cj:
                                return ('const', False, truth)
                            continue
                        if x in (0, 1) or y in (0, 1):
                            k, sym = (x, y) if x in (0, 1) else (y, x)
                            pairs.add(frozenset([_bk(sym), ('k', k ^ cj)]))
                            continue
                        if cj == 0:
                            if x != y:
                                pairs.add(frozenset([_bk(x), _bk(y)]))
                        else:
                            ok = False
                            break
                    if ok:
                        return ('eq', frozenset(pairs), truth)
        ba, bb = bits_of(a, cons, 64), bits_of(b, cons, 64)
        if known(ba) and known(bb):
            pairs = set()
            for x, y in zip(ba, bb):
                if x == y:
                    continue
                if x in (0, 1) and y in (0, 1):
                    return ('const', False, truth)
                pairs.add(frozenset([_bk(x), _bk(y)]))
            return ('eq', frozenset(pairs), truth)
        return ('eq', frozenset([frozenset([('term', a), ('term', b)])]), truth)
    # order: canonical form lt(a, b)
    if op == 'gt':
        op, a, b = 'lt', b, a
    elif op == 'ge':        # a >= b  ==  !(a < b)
        op, truth = 'lt', not truth
    elif op == 'le':        # a <= b  ==  !(b < a)
        op, a, b, truth = 'lt', b, a, not truth
    return ('lt', (a, b), truth)


def _bk(x):
    if x in (0, 1):
        return ('k', x)
    return ('b', x[1][1], x[2])


def pred_str(p):
    kind, payload, truth = p
    neg = '' if truth else 'not '
    if kind == 'eq':
        parts = []
        for pr in sorted(payload, key=repr):
            xs = sorted(pr, key=repr)
            parts.append(' = '.join(_bks(x) for x in xs))
        return neg + '[' + ' & '.join(parts) + ']'
    if kind == 'lt':
        return neg + '(%s < %s)' % (tstr(payload[0]), tstr(payload[1]))
    return neg + str(payload)


def _bks(x):
    if x[0] == 'k':
        return str(x[1])
    if x[0] == 'b':
        return '%s[%d]' % (x[1], x[2])
    return tstr(x[1])
