"""Data-structure invariants of the crate's public value types (from the property statements):
   six newtypes (range), RawShortMessage (status >= 0x80), ControlChange14BitMessage (MSB controller
   number 0..31), ParameterNumberMessage (7-bit => value <= 127; 14-bit => data entry).
They are *assumed* on values that enter an analysed function from outside and *proved* at every
construction site (C04 / C19).  Private field positions are not hard-coded: they are discovered by
interpreting the public accessor that returns the field."""
from . import terms as T
from .terms import VS, vs_of
from .interp import Interp, Sc, Ag, Ar, Rf, Un, NEWTYPE_MAX, subst_ty

RAW = 'raw_short_message::RawShortMessage'
CC14 = 'control_change_14_bit_message::ControlChange14BitMessage'
PNM = 'parameter_number_message::ParameterNumberMessage'
DATATYPE = 'parameter_number_message::DataType'
STRUCTS = (RAW, CC14, PNM)

_roles = {}


def find_token(v, tok, path=()):
    if isinstance(v, Sc):
        return path if v.term == tok else None
    if isinstance(v, Ag):
        for i, f in enumerate(v.fields):
            r = find_token(f, tok, path + (i,))
            if r is not None:
                return r
    return None


def get_path(v, path):
    for i in path:
        if not isinstance(v, Ag) or i >= len(v.fields):
            return None
        v = v.fields[i]
    return v


def set_path(v, path, new):
    if not path:
        return new
    fs = list(v.fields)
    fs[path[0]] = set_path(fs[path[0]], path[1:], new)
    return Ag(v.path, v.variant, fs)


def _accessor_path(F, key, ty_path):
    """which field of `ty_path` does the accessor `key` return? -> field path or None"""
    if key not in F.fns:
        return None
    I = Interp(F, assume_invariants=False)
    st = I.new_state()
    self_v = I.top_of(st, {'k': 'adt', 'path': ty_path, 'krate': 'helgoboss_midi', 'args': []}, 'self')
    if not isinstance(self_v, Ag):
        return None
    # enum-typed fields are tops: give them a recognisable marker by position search below
    st.root().locals['self'] = self_v
    outs = I.run(key, [Rf(0, 'self', ())], [], st)
    rets = [o for o in outs if o.kind == 'return']
    if len(outs) != 1 or not rets:
        return None
    r = rets[0].value
    while isinstance(r, Ag) and len(r.fields) == 1 and not isinstance(r.fields[0], Un):
        r = r.fields[0]
    if isinstance(r, Sc) and r.term[0] == 't':
        return find_token(self_v, r.term)
    if isinstance(r, Un):
        # an enum-typed field returned as is: locate by identity
        def find_obj(v, path=()):
            if v is r:
                return path
            if isinstance(v, Ag):
                for i, f in enumerate(v.fields):
                    p = find_obj(f, path + (i,))
                    if p is not None:
                        return p
            return None
        return find_obj(self_v)
    return None


def roles(F):
    if F.cfg in _roles:
        return _roles[F.cfg]
    r = {}
    r['raw.status'] = _accessor_path(F, '<raw_short_message::RawShortMessage as short_message::ShortMessage>::status_byte', RAW)
    r['cc14.msb'] = _accessor_path(F, CC14 + '::msb_controller_number', CC14)
    r['pnm.value'] = _accessor_path(F, PNM + '::value', PNM)
    r['pnm.is14'] = _accessor_path(F, PNM + '::is_14_bit', PNM)
    r['pnm.data_type'] = _accessor_path(F, PNM + '::data_type', PNM)
    _roles[F.cfg] = r
    return r


def _walk(v, fn, seen=None):
    """apply fn to every Ag inside v (post-order), rebuilding"""
    if isinstance(v, Ag):
        nv = Ag(v.path, v.variant, [_walk(f, fn) for f in v.fields])
        return fn(nv)
    if isinstance(v, Ar):
        first = v.elems[0] if v.elems else None
        if v.elems and all(e is first for e in v.elems):
            w = _walk(first, fn)
            return Ar([w] * len(v.elems))
        return Ar([_walk(e, fn) for e in v.elems])
    return v


def assume_all(I, st, args):
    """apply the struct invariants to all values reachable from the entry arguments.
    Returns a list of alternative (state, args)."""
    R = roles(I.F)
    alts = [(st, list(args))]
    # collect PNM instances to decide about case splits
    out = []

    def constrain(s, v):
        if v.path == RAW and R['raw.status'] is not None:
            x = get_path(v, R['raw.status'])
            if isinstance(x, Sc):
                T.refine(x.term, VS(0x80, 0xFF), s.cons)
        elif v.path == CC14 and R['cc14.msb'] is not None:
            x = get_path(v, R['cc14.msb'])
            if isinstance(x, Sc):
                T.refine(x.term, VS(0, 31), s.cons)
        return v

    def has_pnm(v):
        if isinstance(v, Ag):
            return v.path == PNM or any(has_pnm(f) for f in v.fields)
        if isinstance(v, Ar):
            return any(has_pnm(e) for e in v.elems[:1])
        return False

    root_vals = st.root().locals
    need_split = any(has_pnm(v) for v in list(args) + list(root_vals.values()))
    cases = [None]
    if need_split and R['pnm.is14'] is not None and R['pnm.value'] is not None and R['pnm.data_type'] is not None:
        cases = ['7bit', '14bit']
    for case in cases:
        s = st.clone() if len(cases) > 1 else st

        def fn(v, s=s, case=case):
            if not isinstance(v, Ag):
                return v
            constrain(s, v)
            if v.path == PNM and case is not None:
                f14 = get_path(v, R['pnm.is14'])
                val = get_path(v, R['pnm.value'])
                if case == '7bit':
                    if isinstance(f14, Sc):
                        T.refine(f14.term, VS.one(0), s.cons)
                    if isinstance(val, Sc):
                        T.refine(val.term, VS(0, 127), s.cons)
                else:
                    if isinstance(f14, Sc):
                        T.refine(f14.term, VS.one(1), s.cons)
                    v = set_path(v, R['pnm.data_type'], Ag(DATATYPE, _variant_index(I.F, DATATYPE, 'DataEntry'), []))
            return v
        new_args = [_walk(a, fn) for a in args]
        for k in list(s.root().locals.keys()):
            s.root().locals[k] = _walk(s.root().locals[k], fn)
        out.append((s, new_args))
    todo = [p for p in STRUCTS if not _direct(R, p)]
    if todo:
        out2 = []
        for s, a in out:
            out2.extend(_assume_observed(I, s, a, todo))
        out = out2
    return out


STATUS_KEY = '<raw_short_message::RawShortMessage as short_message::ShortMessage>::status_byte'


def _direct(R, p):
    """are the fields the invariant of struct p speaks about returned as they are by the accessors?"""
    if p == RAW:
        return R['raw.status'] is not None
    if p == CC14:
        return R['cc14.msb'] is not None
    return R['pnm.is14'] is not None and R['pnm.value'] is not None and R['pnm.data_type'] is not None


def _instances(v, want, path=()):
    out = []
    if isinstance(v, Ag):
        if v.path in want:
            out.append(path)
        for i, f in enumerate(v.fields):
            out.extend(_instances(f, want, path + (('f', i),)))
    elif isinstance(v, Ar):
        for i, e in enumerate(v.elems[:1] if v.elems and all(e is v.elems[0] for e in v.elems) else v.elems):
            out.extend(_instances(e, want, path + (('e', i),)))
    return out


def _at(v, path):
    for k, i in path:
        v = v.fields[i] if k == 'f' else v.elems[i]
    return v


def _put(v, path, new):
    if not path:
        return new
    k, i = path[0]
    if k == 'f':
        fs = list(v.fields)
        fs[i] = _put(fs[i], path[1:], new)
        return Ag(v.path, v.variant, fs)
    es = list(v.elems)
    if all(e is es[0] for e in es):
        return Ar([_put(es[0], path[1:], new)] * len(es))
    es[i] = _put(es[i], path[1:], new)
    return Ar(es)


def observed_alternatives(F, v, cons, ntok):
    """the invariant of a struct value expressed on what its accessors return:
    -> [(verdict, text, cons', v', ntok')], one per accessor path; verdict True (holds), False (violated), None (undecided);
    cons' / v' are refined so that the invariant holds where that is possible (used when *assuming* it)"""
    from . import view
    out = []
    if v.path == RAW:
        r = view.run_accessor(F, STATUS_KEY, v, cons, ntok)
        if r is None:
            return [(None, 'status_byte() could not be interpreted on this value', cons, v, ntok)]
        for val, c1, v1, n1 in r:
            if not isinstance(val, Sc):
                out.append((None, 'status_byte() returns %r' % (val,), c1, v1, n1))
                continue
            s = vs_of(val.term, c1)
            c2 = dict(c1)
            ok = T.refine(val.term, VS(0x80, 0xFF), c2)
            out.append((s.subset(VS(0x80, 0xFF)), 'status byte in %r' % s, c2 if ok else None, v1, n1))
        return out
    if v.path == CC14:
        r = view.run_accessor(F, CC14 + '::msb_controller_number', v, cons, ntok)
        if r is None:
            return [(None, 'msb_controller_number() could not be interpreted on this value', cons, v, ntok)]
        for val, c1, v1, n1 in r:
            x = val
            while isinstance(x, Ag) and len(x.fields) == 1:
                x = x.fields[0]
            if not isinstance(x, Sc):
                out.append((None, 'msb_controller_number() returns %r' % (val,), c1, v1, n1))
                continue
            s = vs_of(x.term, c1)
            c2 = dict(c1)
            ok = T.refine(x.term, VS(0, 31), c2)
            out.append((s.subset(VS(0, 31)), 'msb controller number in %r' % s, c2 if ok else None, v1, n1))
        return out
    if v.path == PNM:
        de = _variant_index(F, DATATYPE, 'DataEntry')
        r = view.run_accessor(F, PNM + '::is_14_bit', v, cons, ntok)
        if r is None:
            return [(None, 'is_14_bit() could not be interpreted on this value', cons, v, ntok)]
        for b, c1, v1, n1 in r:
            if not isinstance(b, Sc):
                out.append((None, 'is_14_bit() returns %r' % (b,), c1, v1, n1))
                continue
            bs = vs_of(b.term, c1)
            if bs.has(0):
                c0 = dict(c1)
                if T.refine(b.term, VS.one(0), c0):
                    rv = view.run_accessor(F, PNM + '::value', v1, c0, n1)
                    if rv is None:
                        out.append((None, 'value() could not be interpreted on this value', c0, v1, n1))
                    for val, c2, v2, n2 in rv or []:
                        x = val
                        while isinstance(x, Ag) and len(x.fields) == 1:
                            x = x.fields[0]
                        if not isinstance(x, Sc):
                            out.append((None, 'value() returns %r' % (val,), c2, v2, n2))
                            continue
                        s = vs_of(x.term, c2)
                        c3 = dict(c2)
                        ok = T.refine(x.term, VS(0, 127), c3)
                        out.append((s.subset(VS(0, 127)), '7-bit resolution with value in %r' % s, c3 if ok else None, v2, n2))
            if bs.has(1):
                c0 = dict(c1)
                if T.refine(b.term, VS.one(1), c0):
                    rd = view.run_accessor(F, PNM + '::data_type', v1, c0, n1)
                    if rd is None:
                        out.append((None, 'data_type() could not be interpreted on this value', c0, v1, n1))
                    for dt, c2, v2, n2 in rd or []:
                        if isinstance(dt, Ag):
                            out.append((dt.variant == de, '14-bit resolution with data type variant %d' % dt.variant,
                                        c2 if dt.variant == de else None, v2, n2))
                        else:
                            out.append((False if isinstance(dt, Un) else None, '14-bit resolution possible with unconstrained data type', None, v2, n2))
        return out
    return [(True, '', cons, v, ntok)]


def _assume_observed(I, st, args, todo):
    """alternatives (state, args) in which every instance of the structs in `todo` satisfies its invariant as observed
    through the accessors (paths on which it cannot hold are dropped; undecided ones are kept unrestricted)"""
    alts = [(st, list(args))]
    # argument values
    for ai in range(len(args)):
        for path in _instances(args[ai], todo):
            nxt = []
            for s, a in alts:
                v = _at(a[ai], path)
                for verdict, text, c2, v2, n2 in observed_alternatives(I.F, v, s.cons, s.ntok):
                    if c2 is None and verdict is not None:
                        continue                      # the invariant cannot hold on this accessor path
                    s2 = s.clone()
                    if c2 is not None:
                        s2.cons = dict(c2)
                    s2.ntok = max(s2.ntok, n2)
                    a2 = list(a)
                    a2[ai] = _put(a2[ai], path, v2)
                    nxt.append((s2, a2))
            alts = nxt or alts
    # values in root memory (referents of reference arguments)
    for name in sorted(k for k in st.root().locals.keys() if isinstance(k, str)):
        for path in _instances(st.root().locals[name], todo):
            nxt = []
            for s, a in alts:
                v = _at(s.root().locals[name], path)
                for verdict, text, c2, v2, n2 in observed_alternatives(I.F, v, s.cons, s.ntok):
                    if c2 is None and verdict is not None:
                        continue
                    s2 = s.clone()
                    if c2 is not None:
                        s2.cons = dict(c2)
                    s2.ntok = max(s2.ntok, n2)
                    s2.root().locals[name] = _put(s2.root().locals[name], path, v2)
                    nxt.append((s2, a))
            alts = nxt or alts
    return alts


def _variant_index(F, path, name):
    a = F.adts.get(path)
    if a is None:
        return 0
    for i, v in enumerate(a['variants']):
        if v['name'] == name:
            return i
    return 0


def holds_at_ctor(I, st, v):
    """struct invariant at a construction site: (True | False | None, text) or None when untracked"""
    if v.path not in STRUCTS:
        return None
    R = roles(I.F)
    if not _direct(R, v.path):
        alts = observed_alternatives(I.F, v, st.cons, st.ntok)
        bad = [a for a in alts if a[0] is False]
        und = [a for a in alts if a[0] is None]
        if bad:
            return (False, '; '.join(a[1] for a in bad[:2]) + ' (as observed through the accessors)')
        if und or not alts:
            return (None, '; '.join(a[1] for a in und[:2]) or 'no accessor path')
        return (True, '; '.join(sorted(set(a[1] for a in alts))[:3]) + ' (as observed through the accessors)')
    if v.path == RAW:
        if R['raw.status'] is None:
            return (None, 'cannot locate the status byte field (status_byte accessor not interpretable)')
        x = get_path(v, R['raw.status'])
        if not isinstance(x, Sc):
            return (None, 'status byte operand is not a scalar: %r' % (x,))
        s = vs_of(x.term, st.cons)
        return (s.subset(VS(0x80, 0xFF)), 'status byte in %r' % s)
    if v.path == CC14:
        if R['cc14.msb'] is None:
            return (None, 'cannot locate the MSB controller number field')
        x = get_path(v, R['cc14.msb'])
        if not isinstance(x, Sc):
            return (None, 'msb controller number operand is %r' % (x,))
        s = vs_of(x.term, st.cons)
        return (s.subset(VS(0, 31)), 'msb controller number in %r' % s)
    if v.path == PNM:
        if R['pnm.is14'] is None or R['pnm.value'] is None or R['pnm.data_type'] is None:
            return (None, 'cannot locate is_14_bit / value / data_type fields')
        f14, val, dt = get_path(v, R['pnm.is14']), get_path(v, R['pnm.value']), get_path(v, R['pnm.data_type'])
        if not isinstance(f14, Sc) or not isinstance(val, Sc):
            return (None, 'is_14_bit / value operands are %r / %r' % (f14, val))
        b = vs_of(f14.term, st.cons)
        vv = vs_of(val.term, st.cons)
        de = _variant_index(I.F, DATATYPE, 'DataEntry')
        ok = True
        why = []
        if b.has(0) and not vv.subset(VS(0, 127)):
            ok = False
            why.append('7-bit resolution possible with value in %r' % vv)
        if b.has(1):
            if isinstance(dt, Ag):
                if dt.variant != de:
                    ok = False
                    why.append('14-bit resolution with data type variant %d' % dt.variant)
            else:
                ok = False
                why.append('14-bit resolution possible with unconstrained data type')
        return (ok, '; '.join(why) or 'is_14_bit in %r, value in %r' % (b, vv))
    return None


def unsafe_call_ok(I, st, key, args):
    """safety contract of the crate's unsafe constructors at a call site -> (ok, text)"""
    fn = I.F.fns.get(key)
    name = key.split('::')[-1]
    if name == 'new_unchecked':
        selfty = fn.get('impl_self') if fn else None
        p = selfty['path'] if selfty and selfty['k'] == 'adt' else None
        if p in NEWTYPE_MAX and args and isinstance(args[0], Sc):
            s = vs_of(args[0].term, st.cons)
            return (s.subset(VS(0, NEWTYPE_MAX[p])), '%s::new_unchecked(%r)' % (p, s))
        return (None, 'new_unchecked of %r with %r' % (p, args[:1]))
    if name == 'from_bytes_unchecked':
        a = args[0] if args else None
        if isinstance(a, Ag) and a.fields and isinstance(a.fields[0], Sc):
            s = vs_of(a.fields[0].term, st.cons)
            return (s.subset(VS(0x80, 0xFF)), 'from_bytes_unchecked(status in %r)' % s)
        if isinstance(a, Ag) and a.fields and isinstance(a.fields[0], Un):
            return (False, 'from_bytes_unchecked(status unconstrained)')
        return (None, 'from_bytes_unchecked(%r)' % (a,))
    return (None, 'unsafe fn without a recorded contract: ' + key)


def assume_unsafe_contract(I, st, key, args):
    """entering an `unsafe fn` as an entry point: its documented safety precondition holds
    (callers are audited at their call sites by `unsafe_call_ok`)"""
    fn = I.F.fns.get(key)
    name = key.split('::')[-1]
    if name == 'new_unchecked' and fn:
        selfty = fn.get('impl_self')
        p = selfty['path'] if selfty and selfty['k'] == 'adt' else None
        if p in NEWTYPE_MAX and args and isinstance(args[0], Sc):
            T.refine(args[0].term, VS(0, NEWTYPE_MAX[p]), st.cons)
    if name == 'from_bytes_unchecked' and args and isinstance(args[0], Ag) and args[0].fields and isinstance(args[0].fields[0], Sc):
        T.refine(args[0].fields[0].term, VS(0x80, 0xFF), st.cons)


def ctor_obs_verdict(path, fields, extra):
    """verdict of one construction-site observation (as recorded by Interp.note_ctor): (True | False | None, text)"""
    if path in NEWTYPE_MAX:
        v = fields[0] if fields else None
        if v is None:
            return (None, 'operand is not a scalar with a known value set')
        return (v.subset(VS(0, NEWTYPE_MAX[path])), 'x in %r' % (v,))
    if extra is None:
        return (True, 'untracked')
    return extra
