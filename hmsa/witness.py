"""E4 — runs the compile-fail witness crate against the current tree (nightly doc tests) and
returns {witness name: (kind, ok)}.  The crate path-depends on the analysed tree."""
import os
import re
import shutil
import subprocess

from . import facts


def run():
    wdir = os.path.join(facts.CACHE, 'witness')
    os.makedirs(os.path.join(wdir, 'src'), exist_ok=True)
    shutil.copy(os.path.join(facts.VERIF, 'witness', 'src', 'lib.rs'), os.path.join(wdir, 'src', 'lib.rs'))
    open(os.path.join(wdir, 'Cargo.toml'), 'w').write(
        '[package]\nname = "hmsa-witness"\nversion = "0.0.0"\nedition = "2018"\n\n[dependencies]\n'
        'helgoboss-midi = { path = "%s" }\n\n[workspace]\n' % facts.REPO)
    lock = os.path.join(facts.REPO, 'Cargo.lock')
    if os.path.exists(lock):
        shutil.copy(lock, os.path.join(wdir, 'Cargo.lock'))
    env = dict(os.environ, CARGO_NET_OFFLINE='true', CARGO_TARGET_DIR=os.path.join(facts.CACHE, 'target-witness'))
    p = subprocess.run(['cargo', '+nightly', 'test', '--doc', '--offline'], cwd=wdir, env=env, stdout=subprocess.PIPE, stderr=subprocess.STDOUT, text=True)
    res = {}
    for line in p.stdout.splitlines():
        m = re.match(r'test src/lib\.rs - (\w+) \(line \d+\)( - compile fail)? \.\.\. (\w+)', line)
        if m:
            res[m.group(1)] = ('compile_fail' if m.group(2) else 'compiles', m.group(3) == 'ok')
    return res, p.stdout[-1500:]
