"""Obligations, verdicts, evidence files, VIOLATION / KNOWN-FINDING lines, replay files."""
import json
import os
import sys
import time

VERIF = os.path.dirname(os.path.dirname(os.path.abspath(__file__)))
EVID = os.environ.get('HMSA_EVIDENCE') or os.path.join(VERIF, 'evidence')     # selftest runs on scratch copies write elsewhere
KNOWN = os.path.join(VERIF, 'known_findings.json')


def _short(x, n=400):
    s = x if isinstance(x, str) else repr(x)
    return s if len(s) <= n else s[:n] + '…'


class Check(object):
    def __init__(self, pid, tier, level, rule, cmd, trusted_base=None, assumptions=None, explanation=''):
        self.pid, self.tier, self.level, self.rule, self.cmd = pid, tier, level, rule, cmd
        self.trusted_base = trusted_base or []
        self.assumptions = assumptions or []
        self.explanation = explanation
        self.obs = []
        self.keys = set()
        self.t0 = time.time()
        self.extra = {}
        self.floors = {}
        self.samples = []
        try:
            self.seed = int(os.environ.get('VERIF_SEED', '0'))
        except ValueError:
            self.seed = 0

    # status: proved | refuted | unproven
    def ob(self, key, rule, status, subject=None, expected=None, found=None, why='', nontrivial=True, sample=None):
        assert key.startswith(self.pid + '/'), key
        if key in self.keys:
            n = 2
            while '%s~%d' % (key, n) in self.keys:
                n += 1
            key = '%s~%d' % (key, n)
        self.keys.add(key)
        o = {'key': key, 'property': self.pid, 'rule': rule, 'status': status, 'subject': subject or {},
             'expected': _short(expected) if expected is not None else None,
             'found': _short(found) if found is not None else None, 'why': why, 'nontrivial': bool(nontrivial)}
        self.obs.append(o)
        if sample is not None and len(self.samples) < 12:
            self.samples.append(sample)
        elif status == 'proved' and nontrivial and len(self.samples) < 6:
            self.samples.append({'obligation': key, 'expected': o['expected'], 'found': o['found']})
        return status == 'proved'

    def proved(self, key, rule, **kw):
        return self.ob(key, rule, 'proved', **kw)

    def floor(self, name, required, found):
        """fail closed when a rule matched fewer instances than were counted by hand"""
        self.floors[name] = [required, found]
        if found < required:
            self.ob('%s/floor/%s' % (self.pid, name), 'instance-count floor', 'unproven',
                    expected='>= %d' % required, found=found,
                    why='the rule matched fewer instances than confirmed by hand: an anchor is missing or was renamed')

    def finish(self):
        known = []
        if os.path.exists(KNOWN):
            known = json.load(open(KNOWN))
        known_keys = {k['key']: k for k in known if k.get('status') == 'known' and k.get('property') == self.pid}
        bad = [o for o in self.obs if o['status'] != 'proved']
        viol, matched = [], []
        for o in bad:
            if o['key'] in known_keys:
                matched.append(o)
            else:
                viol.append(o)
        vdir = os.path.join(EVID, 'violations')
        os.makedirs(vdir, exist_ok=True)
        for n in os.listdir(vdir):
            if n.startswith(self.pid + '-'):
                os.remove(os.path.join(vdir, n))
        for o in matched:
            print('KNOWN-FINDING: property=%s %s' % (self.pid, known_keys[o['key']]['what']))
        for i, o in enumerate(viol):
            p = os.path.join(vdir, '%s-%d.json' % (self.pid, i + 1))
            json.dump(o, open(p, 'w'), indent=1)
            loc = o['subject'].get('at', '')
            print('VIOLATION property=%s replay=%s' % (self.pid, p))
            print('  %s: %s [%s] %s' % (o['status'].upper(), o['key'], o['rule'], loc))
            if o['expected'] is not None or o['found'] is not None:
                print('    expected: %s\n    found:    %s' % (o['expected'], o['found']))
            if o['why']:
                print('    why: %s' % o['why'])
        n_ob = len(self.obs)
        n_ok = n_ob - len(bad)
        cov = {
            'obligations': n_ob,
            'discharged': n_ok,
            'checker_cmd': self.cmd,
            'trusted_base': self.trusted_base,
            'evaluations': n_ob,
            'distinct_nontrivial': len(set(o['key'] for o in self.obs if o['nontrivial'])),
            'rule': self.rule + ' | an obligation counts as non-trivial when discharging it needed abstract interpretation '
                                'of at least one function body or an automaton step (not a table lookup); keys are distinct by construction',
            'samples': self.samples or [{'obligation': o['key'], 'status': o['status']} for o in self.obs[:5]],
            'explanation': self.explanation,
            'floors': self.floors,
            'known_findings_matched': [o['key'] for o in matched],
            'violating_obligations': [o['key'] for o in viol][:50],
            'rules_applied': sorted(set(o['rule'] for o in self.obs)),
        }
        cov.update(self.extra)
        ev = {'property_id': self.pid, 'tier': self.tier, 'seed': self.seed, 'level': self.level, 'coverage': cov,
              'assumptions': self.assumptions, 'wall_s': round(time.time() - self.t0, 2), 'violations': len(viol)}
        os.makedirs(EVID, exist_ok=True)
        tmp = os.path.join(EVID, self.pid + '.json.tmp')
        json.dump(ev, open(tmp, 'w'), indent=1)
        os.rename(tmp, os.path.join(EVID, self.pid + '.json'))
        print('%s [%s]: %d obligations, %d discharged, %d known findings, %d violations, %.1fs' % (
            self.pid, self.tier, n_ob, n_ok, len(matched), len(viol), time.time() - self.t0))
        return 1 if viol else 0


def site_subject(F, site, fnkey=None):
    """file:line (and macro invocation site) of a MIR site (fn key, bb, stmt index | 't')"""
    key, bb, si = site
    fn = F.fns.get(key)
    sub = {'fn': key, 'bb': bb, 'config': F.cfg}
    if fn is None:
        return sub
    try:
        blk = fn['body']['blocks'][bb]
        sp = blk['term'].get('span') if si == 't' else blk['stmts'][si].get('span')
        if sp:
            sub['at'] = sp['at']
            if sp['callsite'] != sp['at']:
                sub['macro_callsite'] = sp['callsite']
    except (IndexError, KeyError, TypeError):
        pass
    if 'at' not in sub:
        sub['at'] = fn['span']['callsite']
    return sub


def fn_subject(F, key):
    fn = F.fns.get(key)
    if fn is None:
        return {'fn': key, 'config': F.cfg}
    sp = fn['span']
    s = {'fn': key, 'config': F.cfg, 'at': sp['at']}
    if sp['callsite'] != sp['at']:
        s['macro_callsite'] = sp['callsite']
    return s
