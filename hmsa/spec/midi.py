"""O1 — the MIDI 1.0 short-message table and the accessor / constructor oracles.

Written from the MIDI 1.0 specification and the property statements C01-C06, *not* from the
crate's code.  Names are the crate's public API names (enum variants, methods, constructor
parameters in declaration order), which is the vocabulary the properties are stated in.
"""

# (type name, first status, last status, has channel, super type, carries d1?, carries d2?)
TYPES = [
    ('NoteOff', 0x80, 0x8F, True, 'ChannelVoice', True, True),
    ('NoteOn', 0x90, 0x9F, True, 'ChannelVoice', True, True),
    ('PolyphonicKeyPressure', 0xA0, 0xAF, True, 'ChannelVoice', True, True),
    ('ControlChange', 0xB0, 0xBF, True, None, True, True),          # ChannelVoice / ChannelMode by controller
    ('ProgramChange', 0xC0, 0xCF, True, 'ChannelVoice', True, False),
    ('ChannelPressure', 0xD0, 0xDF, True, 'ChannelVoice', True, False),
    ('PitchBendChange', 0xE0, 0xEF, True, 'ChannelVoice', True, True),
    ('SystemExclusiveStart', 0xF0, 0xF0, False, 'SystemExclusive', False, False),
    ('TimeCodeQuarterFrame', 0xF1, 0xF1, False, 'SystemCommon', True, False),
    ('SongPositionPointer', 0xF2, 0xF2, False, 'SystemCommon', True, True),
    ('SongSelect', 0xF3, 0xF3, False, 'SystemCommon', True, False),
    ('SystemCommonUndefined1', 0xF4, 0xF4, False, 'SystemCommon', False, False),
    ('SystemCommonUndefined2', 0xF5, 0xF5, False, 'SystemCommon', False, False),
    ('TuneRequest', 0xF6, 0xF6, False, 'SystemCommon', False, False),
    ('SystemExclusiveEnd', 0xF7, 0xF7, False, 'SystemCommon', False, False),
    ('TimingClock', 0xF8, 0xF8, False, 'SystemRealTime', False, False),
    ('SystemRealTimeUndefined1', 0xF9, 0xF9, False, 'SystemRealTime', False, False),
    ('Start', 0xFA, 0xFA, False, 'SystemRealTime', False, False),
    ('Continue', 0xFB, 0xFB, False, 'SystemRealTime', False, False),
    ('Stop', 0xFC, 0xFC, False, 'SystemRealTime', False, False),
    ('SystemRealTimeUndefined2', 0xFD, 0xFD, False, 'SystemRealTime', False, False),
    ('ActiveSensing', 0xFE, 0xFE, False, 'SystemRealTime', False, False),
    ('SystemReset', 0xFF, 0xFF, False, 'SystemRealTime', False, False),
]
TYPE = {t[0]: t for t in TYPES}
CHANNEL_TYPES = [t[0] for t in TYPES if t[3]]

# fuzzy super type of a *type* (Control Change cannot be split without the controller number)
FUZZY = {}
for _t in TYPES:
    FUZZY[_t[0]] = 'Channel' if _t[3] else _t[4]

MAIN_OF_SUPER = {'ChannelVoice': 'Channel', 'ChannelMode': 'Channel', 'SystemCommon': 'System',
                 'SystemRealTime': 'System', 'SystemExclusive': 'System'}
MAIN_OF_FUZZY = {'Channel': 'Channel', 'SystemCommon': 'System', 'SystemRealTime': 'System', 'SystemExclusive': 'System'}

CHANNEL_MODE_CONTROLLERS = (120, 127)      # inclusive range

# accessor -> {type: which byte(s)}; '14' = data byte 2 x 128 + data byte 1
ACCESSORS = {
    'key_number': {'NoteOff': 'd1', 'NoteOn': 'd1', 'PolyphonicKeyPressure': 'd1'},
    'velocity': {'NoteOff': 'd2', 'NoteOn': 'd2'},
    'controller_number': {'ControlChange': 'd1'},
    'control_value': {'ControlChange': 'd2'},
    'program_number': {'ProgramChange': 'd1'},
    'pressure_amount': {'PolyphonicKeyPressure': 'd2', 'ChannelPressure': 'd1'},
    'pitch_bend_value': {'PitchBendChange': '14'},
}
# result newtype of each accessor
ACCESSOR_TY = {'key_number': 'KeyNumber', 'velocity': 'U7', 'controller_number': 'ControllerNumber',
               'control_value': 'U7', 'program_number': 'U7', 'pressure_amount': 'U7', 'pitch_bend_value': 'U14'}

# structured form: variant -> [(field name, source)] ; sources: ch, d1, d2, 14, frame
STRUCTURED = {
    'NoteOff': [('channel', 'ch'), ('key_number', 'd1'), ('velocity', 'd2')],
    'NoteOn': [('channel', 'ch'), ('key_number', 'd1'), ('velocity', 'd2')],
    'PolyphonicKeyPressure': [('channel', 'ch'), ('key_number', 'd1'), ('pressure_amount', 'd2')],
    'ControlChange': [('channel', 'ch'), ('controller_number', 'd1'), ('control_value', 'd2')],
    'ProgramChange': [('channel', 'ch'), ('program_number', 'd1')],
    'ChannelPressure': [('channel', 'ch'), ('pressure_amount', 'd1')],
    'PitchBendChange': [('channel', 'ch'), ('pitch_bend_value', '14')],
    'SystemExclusiveStart': [],
    'TimeCodeQuarterFrame': [('0', 'frame')],
    'SongPositionPointer': [('position', '14')],
    'SongSelect': [('song_number', 'd1')],
}
for _t in TYPES:
    STRUCTURED.setdefault(_t[0], [])

# time code quarter frame: data byte 1 = 0kkk nnnn ; kind 7: bit0 = hours MS bit, bits1-2 = type, bit3 reserved
QUARTER_FRAME_KINDS = ['FrameCountLsNibble', 'FrameCountMsNibble', 'SecondsCountLsNibble', 'SecondsCountMsNibble',
                       'MinutesCountLsNibble', 'MinutesCountMsNibble', 'HoursCountLsNibble', 'Last']
TIME_CODE_TYPES = ['Fps24', 'Fps25', 'Fps30DropFrame', 'Fps30NonDrop']

# named constructors of ShortMessageFactory: name -> (type, [role of each parameter in declaration order])
# roles: ch (low nibble of status), d1, d2, v14 (low 7 bits -> d1, high 7 bits -> d2), frame (-> d1)
CONSTRUCTORS = {
    'note_on': ('NoteOn', ['ch', 'd1', 'd2']),
    'note_off': ('NoteOff', ['ch', 'd1', 'd2']),
    'control_change': ('ControlChange', ['ch', 'd1', 'd2']),
    'program_change': ('ProgramChange', ['ch', 'd1']),
    'polyphonic_key_pressure': ('PolyphonicKeyPressure', ['ch', 'd1', 'd2']),
    'channel_pressure': ('ChannelPressure', ['ch', 'd1']),
    'pitch_bend_change': ('PitchBendChange', ['ch', 'v14']),
    'system_exclusive_start': ('SystemExclusiveStart', []),
    'time_code_quarter_frame': ('TimeCodeQuarterFrame', ['frame']),
    'song_position_pointer': ('SongPositionPointer', ['v14']),
    'song_select': ('SongSelect', ['d1']),
    'tune_request': ('TuneRequest', []),
    'system_exclusive_end': ('SystemExclusiveEnd', []),
    'timing_clock': ('TimingClock', []),
    'start': ('Start', []),
    'continue': ('Continue', []),
    'stop': ('Stop', []),
    'active_sensing': ('ActiveSensing', []),
    'system_reset': ('SystemReset', []),
}
# the undefined types have no named constructor; 19 named + 3 generic + from_bytes(+_unchecked) + from_other

# generic constructors: name -> (required fuzzy super type, [roles])
GENERIC_CONSTRUCTORS = {
    'channel_message': ('Channel', ['type', 'ch', 'd1', 'd2']),
    'system_common_message': ('SystemCommon', ['type', 'd1', 'd2']),
    'system_real_time_message': ('SystemRealTime', ['type']),
}

# valid ranges of the shorthand (test_util) parameters by role
ROLE_RANGE = {'ch': (0, 15), 'd1': (0, 127), 'd2': (0, 127), 'v14': (0, 16383)}

NEWTYPE_MAX = {'U4': 15, 'U7': 127, 'U14': 16383, 'Channel': 15, 'KeyNumber': 127, 'ControllerNumber': 127}
NEWTYPE_REPR = {'U4': 'u8', 'U7': 'u8', 'U14': 'u16', 'Channel': 'u8', 'KeyNumber': 'u8', 'ControllerNumber': 'u8'}
NEWTYPE_PATH = {'U4': 'u4_mod::U4', 'U7': 'u7_mod::U7', 'U14': 'u14_mod::U14', 'Channel': 'channel_mod::Channel',
                'KeyNumber': 'key_number_mod::KeyNumber', 'ControllerNumber': 'controller_number_mod::ControllerNumber'}
PATH_NEWTYPE = {v: k for k, v in NEWTYPE_PATH.items()}

# parameter-number controller roles (MIDI 1.0)
CN = {'DATA_ENTRY_MSB': 6, 'DATA_ENTRY_LSB': 38, 'DATA_INCREMENT': 96, 'DATA_DECREMENT': 97,
      'NRPN_LSB': 98, 'NRPN_MSB': 99, 'RPN_LSB': 100, 'RPN_MSB': 101}
PARAMETER_NUMBER_CONTROLLERS = frozenset([6, 38, 96, 97, 98, 99, 100, 101])
