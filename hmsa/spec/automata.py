"""O2 / O3 / O4 — reference automata of the three per-channel scanners, transcribed from the
property statements C08, C11 and C12-C14 (not from the code).  States hold *terms over the tokens
of the messages received so far*; a step returns a decision tree:

    ('leaf', [output messages], next_state)
    ('branch', predicate term, tree_if_true, tree_if_false)

Output message = dict role -> term (or name for the data type).  `cur` gives the tokens of the
current input: cur.ch (low nibble of the status byte / the polled channel), cur.cn, cur.cv.
"""
from .. import terms as T
from ..terms import C


class Cur(object):
    def __init__(self, ch, cn, cv, now=None):
        self.ch, self.cn, self.cv, self.now = ch, cn, cv, now


def leaf(outs, nxt):
    return ('leaf', outs, nxt)


def branch(pred, a, b):
    return ('branch', pred, a, b)


def v14(hi, lo):
    """128 x hi + lo as an exact term"""
    return T.mk_op('BitOr', T.mk_op('Shl', hi, C(7), None, {}), lo, None, {})


# ------------------------------------------------------------------ O2: 14-bit Control Change

class CC14Spec(object):
    name = 'control_change_14_bit_message_scanner'
    has_poll = False
    # input classes: (name, kind, controller number range | None for non-CC)
    classes = [('CC.0-31', 'cc', (0, 31)), ('CC.32-63', 'cc', (32, 63)), ('CC.64-127', 'cc', (64, 127)),
               ('NonCC', 'noncc', None), ('System', 'noncc', 'system'), ('reset', 'reset', None)]
    contributing = [(0, 63)]

    def init(self, timeout=None):
        return ('empty',)

    def step(self, s, cname, kind, cur):
        if kind == 'reset':
            return leaf([], ('empty',))
        if cname == 'CC.0-31':
            return leaf([], ('msb', cur.cn, cur.cv))
        if cname == 'CC.32-63':
            if s[0] == 'empty':
                return leaf([], s)
            n, v = s[1], s[2]
            msg = {'channel': cur.ch, 'msb_controller_number': n, 'value': v14(v, cur.cv)}
            return branch(('cmp', 'eq', cur.cn, T.mk_op('Add', n, C(32), None, {})), leaf([msg], s), leaf([], s))
        return leaf([], s)


# ------------------------------------------------------------------ O3: (N)RPN

def pn_msg(ch, msb, lsb, value, registered, is14, dtype):
    return {'channel': ch, 'number': v14(msb, lsb), 'value': value, 'is_registered': registered,
            'is_14_bit': C(int(is14)), 'data_type': dtype}


PN_CLASSES = [('CC.98', 'cc', (98, 98)), ('CC.99', 'cc', (99, 99)), ('CC.100', 'cc', (100, 100)), ('CC.101', 'cc', (101, 101)),
              ('CC.38', 'cc', (38, 38)), ('CC.6', 'cc', (6, 6)), ('CC.96', 'cc', (96, 96)), ('CC.97', 'cc', (97, 97)),
              ('CC.0-5', 'cc', (0, 5)), ('CC.7-37', 'cc', (7, 37)), ('CC.39-95', 'cc', (39, 95)), ('CC.102-127', 'cc', (102, 127)),
              ('NonCC', 'noncc', None), ('System', 'noncc', 'system'), ('reset', 'reset', None)]


class PNSpec(object):
    name = 'parameter_number_message_scanner'
    has_poll = False
    classes = PN_CLASSES
    contributing = [(6, 6), (38, 38), (96, 101)]

    def init(self, timeout=None):
        return (None, None, C(0), None)          # number msb, number lsb, registered flag, value lsb

    def step(self, s, cname, kind, cur):
        m, l, r, q = s
        if kind == 'reset':
            return leaf([], self.init())
        if cname in ('CC.99', 'CC.101'):
            return leaf([], (cur.cv, l, C(int(cname == 'CC.101')), None))
        if cname in ('CC.98', 'CC.100'):
            return leaf([], (m, cur.cv, C(int(cname == 'CC.100')), None))
        if cname == 'CC.38':
            return leaf([], (m, l, r, cur.cv))
        if cname == 'CC.6':
            if m is None or l is None:
                return leaf([], s)
            if q is not None:
                return leaf([pn_msg(cur.ch, m, l, v14(cur.cv, q), r, True, 'DataEntry')], s)
            return leaf([pn_msg(cur.ch, m, l, cur.cv, r, False, 'DataEntry')], s)
        if cname in ('CC.96', 'CC.97'):
            if m is None or l is None:
                return leaf([], s)
            return leaf([pn_msg(cur.ch, m, l, cur.cv, r, False, 'DataIncrement' if cname == 'CC.96' else 'DataDecrement')], s)
        return leaf([], s)


# ------------------------------------------------------------------ O4: polling (N)RPN

class PollingSpec(object):
    name = 'polling_parameter_number_message_scanner'
    has_poll = True
    classes = PN_CLASSES[:-1] + [('poll', 'poll', None), ('reset', 'reset', None)]
    contributing = [(6, 6), (38, 38), (96, 101)]

    # states: ('E', T) ('M', T, a, r) ('L', T, a, r) ('S1', T, msb, lsb, r)
    #         ('P6', T, msb, lsb, r, v, t) ('P38', T, msb, lsb, r, v, t) ('C', T, msb, lsb, r, vm, vl)
    def init(self, timeout=None):
        return ('E', timeout)

    @staticmethod
    def number(s):
        return s[2], s[3], s[4]

    def step(self, s, cname, kind, cur):
        tag, TO = s[0], s[1]
        if kind == 'reset':
            return leaf([], ('E', TO))
        if kind == 'poll':
            if tag in ('P6', 'P38'):
                msb, lsb, r = self.number(s)
                v0, t = s[5], s[6]
                pred = ('cmp', 'lt', ('app', 'elapsed', (t,)), TO)
                outs = [pn_msg(cur.ch, msb, lsb, v0, r, False, 'DataEntry')] if tag == 'P6' else []
                return branch(pred, leaf([], s), leaf(outs, ('S1', TO, msb, lsb, r)))
            return leaf([], s)
        is_num_msb = cname in ('CC.99', 'CC.101')
        is_num_lsb = cname in ('CC.98', 'CC.100')
        if is_num_msb or is_num_lsb:
            r2 = C(int(cname in ('CC.100', 'CC.101')))
            b = cur.cv
            if tag == 'E':
                return leaf([], ('M' if is_num_msb else 'L', TO, b, r2))
            if tag == 'M':
                return leaf([], ('M', TO, b, r2) if is_num_msb else ('S1', TO, s[2], b, r2))
            if tag == 'L':
                return leaf([], ('S1', TO, b, s[2], r2) if is_num_msb else ('L', TO, b, r2))
            msb, lsb, r = self.number(s)
            nxt = ('S1', TO, b if is_num_msb else msb, lsb if is_num_msb else b, r2)
            outs = []
            if tag == 'P6':
                outs = [pn_msg(cur.ch, msb, lsb, s[5], r, False, 'DataEntry')]     # flush with the number *before* the update
            return leaf(outs, nxt)
        if tag in ('E', 'M', 'L'):
            return leaf([], s)
        msb, lsb, r = self.number(s)
        N = (TO, msb, lsb, r)
        v = cur.cv
        if cname == 'CC.6':
            if tag in ('S1', 'C'):
                return leaf([], ('P6',) + N + (v, cur.now))
            if tag == 'P6':
                return leaf([pn_msg(cur.ch, msb, lsb, s[5], r, False, 'DataEntry')], ('P6',) + N + (v, cur.now))
            if tag == 'P38':
                return leaf([pn_msg(cur.ch, msb, lsb, v14(v, s[5]), r, True, 'DataEntry')], ('C',) + N + (v, s[5]))
        if cname == 'CC.38':
            if tag == 'S1':
                return leaf([], ('P38',) + N + (v, cur.now))
            if tag == 'P6':
                return leaf([pn_msg(cur.ch, msb, lsb, v14(s[5], v), r, True, 'DataEntry')], ('C',) + N + (s[5], v))
            if tag == 'P38':
                return leaf([], ('S1',) + N)
            if tag == 'C':
                return leaf([pn_msg(cur.ch, msb, lsb, v14(s[5], v), r, True, 'DataEntry')], ('C',) + N + (s[5], v))
        if cname in ('CC.96', 'CC.97'):
            dt = 'DataIncrement' if cname == 'CC.96' else 'DataDecrement'
            incdec = pn_msg(cur.ch, msb, lsb, v, r, False, dt)
            if tag in ('S1', 'C'):
                return leaf([incdec], ('S1',) + N)
            if tag == 'P6':
                return leaf([pn_msg(cur.ch, msb, lsb, s[5], r, False, 'DataEntry'), incdec], ('S1',) + N)
            if tag == 'P38':
                return leaf([], ('S1',) + N)
        return leaf([], s)
