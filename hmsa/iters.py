"""Lazy iterator values and their consumers.

An iterator is an immutable abstract value: a slice iterator `It(rf, pos, n)` (yields references to the elements
pos..n of a concrete-length array), a by-value sequence `Ag(SEQ, [Ar(items), Sc(pos)])`, an integer range, or an
adaptor `Ag(<iter::X>, [...])` around another iterator.  `pull` produces the next item in continuation-passing
style (closures of adaptors are interpreted like any other call, so a pull may fork and may take many steps);
consumers (`next`, `for_each`, `fold`, `find`, `position`, ...) are loops over `pull`.  Lengths of arrays are
concrete, so every loop is finite; the iteration points are loop heads for the purpose of state subsumption."""
from . import terms as T
from .terms import VS, C, vs_of, mk_cmp, mk_op, mk_not
from .interp import Sc, Ag, Ar, Rf, Un, Clo, FnV, It, unit, scalar_name

OPT = 'core::option::Option'
RES = 'core::result::Result'
CF = 'core::ops::control_flow::ControlFlow'
RANGE = 'core::ops::range::Range'
RANGE_INCL = 'core::ops::range::RangeInclusive'
SEQ = '<iter::Seq>'
MAP, FILTER, ENUM, REV, ZIP, CHAIN, COPIED = '<iter::Map>', '<iter::Filter>', '<iter::Enumerate>', '<iter::Rev>', '<iter::Zip>', '<iter::Chain>', '<iter::Copied>'
TAKE, SKIP, STEP, TAKEW, SKIPW, FMAP, FLAT = '<iter::Take>', '<iter::Skip>', '<iter::StepBy>', '<iter::TakeWhile>', '<iter::SkipWhile>', '<iter::FilterMap>', '<iter::Flatten>'
ADAPTORS = (MAP, FILTER, ENUM, REV, ZIP, CHAIN, COPIED, TAKE, SKIP, STEP, TAKEW, SKIPW, FMAP, FLAT)
BOOL = {'k': 'bool'}
USIZE = {'k': 'int', 'name': 'usize'}


def some(v):
    return Ag(OPT, 1, [v])


def none():
    return Ag(OPT, 0, [])


def is_iter(v):
    return isinstance(v, It) or (isinstance(v, Ag) and (v.path in ADAPTORS or v.path in (SEQ, RANGE, RANGE_INCL)))


def seq_of(items):
    return Ag(SEQ, 0, [Ar(list(items)), Sc(C(0), USIZE)])


def ref_to(st, v):
    """a reference to a temporary in root memory holding v"""
    slot = 'm%d' % len(st.root().locals)
    st.root().locals[slot] = v
    return Rf(0, slot, (), False)


def subsumed(I, st, tag, extra):
    key = (tag, extra, I.state_key(st))
    if key in I.seen_loop_states:
        I.subsumed += 1
        return True
    I.seen_loop_states.add(key)
    return False


def fork_bool(I, st, val, on_true, on_false):
    """continue with on_true(st) / on_false(st) according to a boolean abstract value (both when undetermined)"""
    if not isinstance(val, Sc):
        return None
    v = vs_of(val.term, st.cons)
    outs = []
    if v.has(1):
        s3 = st.clone() if v.has(0) else st
        if I.branch(s3, val.term, 1):
            r = on_true(s3)
            if r is None:
                return None
            outs.extend(r)
    if v.has(0):
        if I.branch(st, val.term, 0):
            r = on_false(st)
            if r is None:
                return None
            outs.extend(r)
    return outs


# ------------------------------------------------------------------ pull

def pull(I, st, it, k, back=False):
    """next item of `it` (from the back when `back`): k(I, st, it', item | None) -> [states] | None (cannot model)"""
    if isinstance(it, It):
        if it.pos >= it.n:
            return k(I, st, it, None)
        if back:
            idx, it2 = it.n - 1, It(it.rf, it.pos, it.n - 1)
        else:
            idx, it2 = it.pos, It(it.rf, it.pos + 1, it.n)
        return k(I, st, it2, Rf(it.rf.fid, it.rf.local, tuple(it.rf.path) + (('i', C(idx)),), it.rf.mut))
    if not isinstance(it, Ag):
        return None
    p = it.path
    if p == SEQ:
        arr, pos = it.fields
        lo = pos.term[1]
        hi = len(arr.elems)
        if lo >= hi:
            return k(I, st, it, None)
        if back:
            return k(I, st, Ag(SEQ, 0, [Ar(arr.elems[:-1]), pos]), arr.elems[-1])
        return k(I, st, Ag(SEQ, 0, [arr, Sc(C(lo + 1), USIZE)]), arr.elems[lo])
    if p == RANGE and all(isinstance(f, Sc) for f in it.fields[:2]):
        lo, hi = it.fields[:2]
        c = mk_cmp('lt', lo.term, hi.term, st.cons)
        if c == C(0):
            return k(I, st, it, None)
        if c != C(1):
            return None
        n = scalar_name(lo.ty)
        if back:
            h2 = Sc(mk_op('Sub', hi.term, C(1), n, st.cons), hi.ty)
            return k(I, st, Ag(RANGE, 0, [lo, h2]), h2)
        return k(I, st, Ag(RANGE, 0, [Sc(mk_op('Add', lo.term, C(1), n, st.cons), lo.ty), hi]), lo)
    if p == RANGE_INCL and len(it.fields) == 3 and all(isinstance(f, Sc) for f in it.fields):
        lo, hi, ex = it.fields
        if ex.term == C(1):
            return k(I, st, it, None)
        if ex.term != C(0):
            return None
        lt, eq = mk_cmp('lt', lo.term, hi.term, st.cons), mk_cmp('eq', lo.term, hi.term, st.cons)
        n = scalar_name(lo.ty)
        if eq == C(1):
            return k(I, st, Ag(RANGE_INCL, 0, [lo, hi, Sc(C(1), BOOL)]), lo)
        if lt == C(1):
            if back:
                return k(I, st, Ag(RANGE_INCL, 0, [lo, Sc(mk_op('Sub', hi.term, C(1), n, st.cons), hi.ty), ex]), hi)
            return k(I, st, Ag(RANGE_INCL, 0, [Sc(mk_op('Add', lo.term, C(1), n, st.cons), lo.ty), hi, ex]), lo)
        if lt == C(0) and eq == C(0):
            return k(I, st, it, None)
        return None
    if p == REV:
        return pull(I, st, it.fields[0], lambda I2, s2, in2, item: k(I2, s2, Ag(REV, 0, [in2]), item), back=not back)
    if p == COPIED:
        def kc(I2, s2, in2, item):
            if item is not None:
                item = I2.deref_all(s2, item) if isinstance(item, Rf) else item
            return k(I2, s2, Ag(COPIED, 0, [in2]), item)
        return pull(I, st, it.fields[0], kc, back)
    if p == MAP:
        clo = it.fields[1]

        def km(I2, s2, in2, item):
            if item is None:
                return k(I2, s2, Ag(MAP, 0, [in2, clo]), None)
            return I2.call_closure(s2, clo, [item], lambda I3, s3, val: k(I3, s3, Ag(MAP, 0, [in2, clo]), val))
        return pull(I, st, it.fields[0], km, back)
    if p == ENUM and not back:
        idx = it.fields[1]

        def ke(I2, s2, in2, item):
            if item is None:
                return k(I2, s2, Ag(ENUM, 0, [in2, idx]), None)
            nxt = Sc(mk_op('Add', idx.term, C(1), None, s2.cons), idx.ty)
            return k(I2, s2, Ag(ENUM, 0, [in2, nxt]), Ag('()', 0, [idx, item]))
        return pull(I, st, it.fields[0], ke)
    if p == ZIP and not back:
        a, b = it.fields

        def ka(I2, s2, a2, x):
            if x is None:
                return k(I2, s2, Ag(ZIP, 0, [a2, b]), None)

            def kb(I3, s3, b2, y):
                if y is None:
                    return k(I3, s3, Ag(ZIP, 0, [a2, b2]), None)
                return k(I3, s3, Ag(ZIP, 0, [a2, b2]), Ag('()', 0, [x, y]))
            return pull(I2, s2, b, kb)
        return pull(I, st, a, ka)
    if p == CHAIN:
        a, b = it.fields
        first, second = (b, a) if back else (a, b)

        def k1(I2, s2, f2, x):
            if x is not None:
                return k(I2, s2, Ag(CHAIN, 0, [a, f2] if back else [f2, b]), x)

            def k2(I3, s3, g2, y):
                return k(I3, s3, Ag(CHAIN, 0, [g2, f2] if back else [f2, g2]), y)
            return pull(I2, s2, second, k2, back)
        return pull(I, st, first, k1, back)
    if p in (FILTER, FMAP, TAKEW, SKIPW) and not (back and p in (TAKEW, SKIPW)):
        return _pull_pred(I, st, it, k, back)
    if p == TAKE and not back:
        inner, n = it.fields
        left = vs_of(n.term, st.cons)
        if not left.single():
            return None
        if left.lo <= 0:
            return k(I, st, it, None)
        return pull(I, st, inner, lambda I2, s2, in2, item: k(I2, s2, Ag(TAKE, 0, [in2, Sc(C(left.lo - 1), n.ty)]), item))
    if p == SKIP and not back:
        inner, n = it.fields
        left = vs_of(n.term, st.cons)
        if not left.single():
            return None
        if left.lo <= 0:
            return pull(I, st, inner, lambda I2, s2, in2, item: k(I2, s2, Ag(SKIP, 0, [in2, n]), item))
        return pull(I, st, inner, lambda I2, s2, in2, item: (k(I2, s2, Ag(SKIP, 0, [in2, Sc(C(0), n.ty)]), None) if item is None
                                                            else pull(I2, s2, Ag(SKIP, 0, [in2, Sc(C(left.lo - 1), n.ty)]), k)))
    if p == STEP and not back:
        inner, step, first = it.fields
        sv = vs_of(step.term, st.cons)
        if not sv.single() or sv.lo < 1:
            return None

        def drop(I2, s2, in2, left, item0):
            if left == 0:
                return k(I2, s2, Ag(STEP, 0, [in2, step, Sc(C(0), BOOL)]), item0)
            return pull(I2, s2, in2, lambda I3, s3, in3, x: (k(I3, s3, Ag(STEP, 0, [in3, step, Sc(C(0), BOOL)]), item0) if x is None
                                                                else drop(I3, s3, in3, left - 1, item0)))
        # StepBy yields the first element, then every step-th: implemented as "yield, then discard step-1"
        return pull(I, st, inner, lambda I2, s2, in2, item: (k(I2, s2, Ag(STEP, 0, [in2, step, first]), None) if item is None
                                                            else drop(I2, s2, in2, sv.lo - 1, item)))
    if p == FLAT and not back:
        # only iterators of Option values (each yields zero or one item)
        def kf(I2, s2, in2, item):
            if item is None:
                return k(I2, s2, Ag(FLAT, 0, [in2]), None)
            v = I2.deref_all(s2, item) if isinstance(item, Rf) else item
            if isinstance(v, Ag) and v.path == OPT:
                if v.variant == 1:
                    return k(I2, s2, Ag(FLAT, 0, [in2]), v.fields[0])
                return pull(I2, s2, Ag(FLAT, 0, [in2]), k)
            return None
        return pull(I, st, it.fields[0], kf)
    return None


def _pull_pred(I, st, it, k, back):
    p = it.path
    inner, clo = it.fields[0], it.fields[1]
    flag = it.fields[2] if len(it.fields) > 2 else None
    if p == TAKEW and flag is not None and flag.term == C(1):
        return k(I, st, it, None)
    if subsumed(I, st, 'pull-pred', repr(it)[:200]):
        return []

    def ki(I2, s2, in2, item):
        if item is None:
            return k(I2, s2, Ag(p, 0, [in2, clo] + ([flag] if flag is not None else [])), None)
        if p == SKIPW and flag is not None and flag.term == C(1):
            return k(I2, s2, Ag(p, 0, [in2, clo, flag]), item)
        if p == FMAP:
            def on_fm(I3, s3, val):
                if isinstance(val, Un):
                    return None
                if isinstance(val, Ag) and val.path == OPT:
                    if val.variant == 1:
                        return k(I3, s3, Ag(FMAP, 0, [in2, clo]), val.fields[0])
                    return pull(I3, s3, Ag(FMAP, 0, [in2, clo]), k, back)
                return None
            return I2.call_closure(s2, clo, [item], on_fm)

        def on_pred(I3, s3, val):
            if p == FILTER:
                return fork_bool(I3, s3, val, lambda s: k(I3, s, Ag(FILTER, 0, [in2, clo]), item),
                                 lambda s: pull(I3, s, Ag(FILTER, 0, [in2, clo]), k, back))
            if p == TAKEW:
                return fork_bool(I3, s3, val, lambda s: k(I3, s, Ag(TAKEW, 0, [in2, clo, Sc(C(0), BOOL)]), item),
                                 lambda s: k(I3, s, Ag(TAKEW, 0, [in2, clo, Sc(C(1), BOOL)]), None))
            # SKIPW
            return fork_bool(I3, s3, val, lambda s: pull(I3, s, Ag(SKIPW, 0, [in2, clo, Sc(C(0), BOOL)]), k),
                             lambda s: k(I3, s, Ag(SKIPW, 0, [in2, clo, Sc(C(1), BOOL)]), item))
        return I2.call_closure(s2, clo, [ref_to(s2, item)], on_pred)
    return pull(I, st, inner, ki, back)


# ------------------------------------------------------------------ adaptors (constructors)

def adaptor(I, st, name, args):
    """value of `iter.<name>(args...)` or None"""
    it = I.deref_all(st, args[0]) if isinstance(args[0], Rf) else args[0]
    if not is_iter(it):
        return None
    if name == 'map' and len(args) == 2:
        return Ag(MAP, 0, [it, args[1]])
    if name == 'filter' and len(args) == 2:
        return Ag(FILTER, 0, [it, args[1]])
    if name == 'filter_map' and len(args) == 2:
        return Ag(FMAP, 0, [it, args[1]])
    if name == 'take_while' and len(args) == 2:
        return Ag(TAKEW, 0, [it, args[1], Sc(C(0), BOOL)])
    if name == 'skip_while' and len(args) == 2:
        return Ag(SKIPW, 0, [it, args[1], Sc(C(0), BOOL)])
    if name == 'enumerate':
        return Ag(ENUM, 0, [it, Sc(C(0), USIZE)])
    if name == 'rev':
        return Ag(REV, 0, [it])
    if name in ('copied', 'cloned'):
        return Ag(COPIED, 0, [it])
    if name in ('zip', 'chain') and len(args) == 2:
        other = to_iter(I, st, args[1])
        if other is None:
            return None
        return Ag(ZIP if name == 'zip' else CHAIN, 0, [it, other])
    if name in ('take', 'skip') and len(args) == 2 and isinstance(args[1], Sc):
        if isinstance(it, It) and vs_of(args[1].term, st.cons).single():
            kk = vs_of(args[1].term, st.cons).lo
            return It(it.rf, min(it.n, it.pos + kk), it.n) if name == 'skip' else It(it.rf, it.pos, min(it.n, it.pos + kk))
        return Ag(TAKE if name == 'take' else SKIP, 0, [it, args[1]])
    if name == 'step_by' and len(args) == 2 and isinstance(args[1], Sc):
        return Ag(STEP, 0, [it, args[1], Sc(C(1), BOOL)])
    if name == 'flatten':
        return Ag(FLAT, 0, [it])
    if name in ('by_ref', 'into_iter', 'fuse'):
        return it
    return None


def to_iter(I, st, v):
    """IntoIterator::into_iter of an abstract value"""
    if is_iter(v):
        return v
    if isinstance(v, Ar):
        return seq_of(v.elems)
    if isinstance(v, Ag) and v.path == OPT:
        return seq_of(v.fields[:1] if v.variant == 1 else [])
    if isinstance(v, Rf):
        tgt = I.deref(st, v)
        if isinstance(tgt, Ar):
            return It(v, 0, len(tgt.elems))
        if is_iter(tgt):
            return tgt
        if isinstance(tgt, Ag) and tgt.path == OPT:
            if tgt.variant == 1:
                return seq_of([Rf(v.fid, v.local, tuple(v.path) + (('f', 0, 1),), v.mut)])
            return seq_of([])
    return None


# ------------------------------------------------------------------ consumers

def consume(I, st, fr, t, name, args, ret_ty):
    """Iterator consumer `name` called with args (args[0]: the iterator, by value or by mutable reference)"""
    slot = args[0] if isinstance(args[0], Rf) else None
    it = I.deref_all(st, args[0]) if slot is not None else args[0]
    if not is_iter(it):
        return None

    def finish(I2, s2, it2, val):
        if slot is not None:
            I2.store_through(s2, slot, it2)
        return I2.done(s2, s2.top(), t, val)
    if name == 'next':
        return pull(I, st, it, lambda I2, s2, it2, item: finish(I2, s2, it2, none() if item is None else some(item)))
    if name == 'next_back':
        return pull(I, st, it, lambda I2, s2, it2, item: finish(I2, s2, it2, none() if item is None else some(item)), back=True)
    if name == 'nth' and len(args) == 2 and isinstance(args[1], Sc) and vs_of(args[1].term, st.cons).single():
        n0 = vs_of(args[1].term, st.cons).lo

        def loop_nth(I2, s2, it2, left):
            return pull(I2, s2, it2, lambda I3, s3, it3, item: finish(I3, s3, it3, none()) if item is None else (
                finish(I3, s3, it3, some(item)) if left == 0 else loop_nth(I3, s3, it3, left - 1)))
        return loop_nth(I, st, it, n0)
    if name in ('count', 'last'):
        def loop_cl(I2, s2, it2, n, last):
            return pull(I2, s2, it2, lambda I3, s3, it3, item: (
                finish(I3, s3, it3, Sc(C(n), USIZE) if name == 'count' else (none() if last is None else some(last)))
                if item is None else loop_cl(I3, s3, it3, n + 1, item)))
        return loop_cl(I, st, it, 0, None)
    if name == 'for_each' and len(args) == 2:
        clo = args[1]

        def loop_fe(I2, s2, it2, n):
            if n and subsumed(I2, s2, 'for_each', n):
                return []
            return pull(I2, s2, it2, lambda I3, s3, it3, item: finish(I3, s3, it3, unit()) if item is None else
                        I3.call_closure(s3, clo, [item], lambda I4, s4, val: loop_fe(I4, s4, it3, n + 1)))
        return loop_fe(I, st, it, 0)
    if name == 'fold' and len(args) == 3:
        clo = args[2]

        def loop_fold(I2, s2, it2, acc, n):
            if n and subsumed(I2, s2, 'fold', n):
                return []
            return pull(I2, s2, it2, lambda I3, s3, it3, item: finish(I3, s3, it3, acc) if item is None else
                        I3.call_closure(s3, clo, [acc, item], lambda I4, s4, val: loop_fold(I4, s4, it3, val, n + 1)))
        return loop_fold(I, st, it, args[1], 0)
    if name in ('try_fold', 'try_for_each') and len(args) == (3 if name == 'try_fold' else 2):
        clo = args[-1]
        rp = ret_ty.get('path') if ret_ty.get('k') == 'adt' else None
        if rp not in (OPT, RES, CF):
            return None
        acc0 = args[1] if name == 'try_fold' else unit()

        def wrap_out(acc):
            return some(acc) if rp == OPT else Ag(rp, 0, [acc])

        def loop_tf(I2, s2, it2, acc, n):
            if n and subsumed(I2, s2, 'try_fold', n):
                return []

            def on_step(I4, s4, it3, val):
                if isinstance(val, Un):
                    return None
                if not isinstance(val, Ag) or val.path != rp:
                    return None
                good = (val.variant == 1) if rp == OPT else (val.variant == 0)
                if good:
                    return loop_tf(I4, s4, it3, val.fields[0], n + 1)
                return finish(I4, s4, it3, val)           # the residual (None / Err(e) / Break(b)) is the result
            return pull(I2, s2, it2, lambda I3, s3, it3, item: finish(I3, s3, it3, wrap_out(acc)) if item is None else
                        I3.call_closure(s3, clo, ([acc, item] if name == 'try_fold' else [item]),
                                        lambda I4, s4, val, it3=it3: on_step(I4, s4, it3, val)))
        return loop_tf(I, st, it, acc0, 0)
    if name in ('any', 'all', 'find', 'position', 'find_map') and len(args) == 2:
        clo = args[1]

        def loop_s(I2, s2, it2, n):
            if n and subsumed(I2, s2, name, n):
                return []

            def on_item(I3, s3, it3, item):
                if item is None:
                    end = {'any': Sc(C(0), BOOL), 'all': Sc(C(1), BOOL)}.get(name, none())
                    return finish(I3, s3, it3, end)
                if name == 'find_map':
                    def on_fm(I4, s4, val):
                        if isinstance(val, Ag) and val.path == OPT:
                            return finish(I4, s4, it3, val) if val.variant == 1 else loop_s(I4, s4, it3, n + 1)
                        return None
                    return I3.call_closure(s3, clo, [item], on_fm)
                arg = ref_to(s3, item) if name == 'find' else item

                def on_pred(I4, s4, val):
                    if name == 'any':
                        return fork_bool(I4, s4, val, lambda s: finish(I4, s, it3, Sc(C(1), BOOL)), lambda s: loop_s(I4, s, it3, n + 1))
                    if name == 'all':
                        return fork_bool(I4, s4, val, lambda s: loop_s(I4, s, it3, n + 1), lambda s: finish(I4, s, it3, Sc(C(0), BOOL)))
                    if name == 'find':
                        return fork_bool(I4, s4, val, lambda s: finish(I4, s, it3, some(item)), lambda s: loop_s(I4, s, it3, n + 1))
                    return fork_bool(I4, s4, val, lambda s: finish(I4, s, it3, some(Sc(C(n), USIZE))), lambda s: loop_s(I4, s, it3, n + 1))
                return I3.call_closure(s3, clo, [arg], on_pred)
            return pull(I2, s2, it2, on_item)
        return loop_s(I, st, it, 0)
    if name in ('sum', 'min', 'max'):
        def loop_a(I2, s2, it2, acc, n):
            if n and subsumed(I2, s2, name, n):
                return []

            def on_item(I3, s3, it3, item):
                if item is None:
                    if name == 'sum':
                        return finish(I3, s3, it3, acc if acc is not None else Sc(C(0), ret_ty))
                    return finish(I3, s3, it3, none() if acc is None else some(acc))
                v = I3.deref_all(s3, item) if isinstance(item, Rf) and name == 'sum' else item
                cmpv = I3.deref_all(s3, item) if isinstance(item, Rf) else item
                while isinstance(cmpv, Ag) and len(cmpv.fields) == 1 and cmpv.path not in (OPT, RES):
                    cmpv = cmpv.fields[0]
                if name == 'sum':
                    if not isinstance(v, Sc):
                        return None
                    nn = scalar_name(ret_ty)
                    return loop_a(I3, s3, it3, v if acc is None else Sc(mk_op('Add', acc.term, v.term, nn, s3.cons), ret_ty), n + 1)
                if acc is None:
                    return loop_a(I3, s3, it3, item, n + 1)
                a0 = I3.deref_all(s3, acc) if isinstance(acc, Rf) else acc
                while isinstance(a0, Ag) and len(a0.fields) == 1 and a0.path not in (OPT, RES):
                    a0 = a0.fields[0]
                if not (isinstance(a0, Sc) and isinstance(cmpv, Sc)):
                    return None
                # max returns the last of equal elements, min the first
                c = mk_cmp('le' if name == 'max' else 'lt', a0.term if name == 'max' else cmpv.term, cmpv.term if name == 'max' else a0.term, s3.cons)
                return fork_bool(I3, s3, Sc(c, BOOL), lambda s: loop_a(I3, s, it3, item, n + 1), lambda s: loop_a(I3, s, it3, acc, n + 1))
            return pull(I2, s2, it2, on_item)
        return loop_a(I, st, it, None, 0)
    return None
