"""Message values seen through their public accessors.

The properties speak about what `channel()`, `number()`, `value()`, ... return, not about how the message
structs store it.  Where an accessor returns one stored field unchanged, that field is read directly
(fast path, discovered by interpreting the accessor on a top value); otherwise the accessor itself is
interpreted on the value at hand, so a change of representation (number kept as two septets, resolution
and data type folded into one enum, ...) does not change what is decided.  Abstract message values for
the encoder clauses are built by the crate's own public constructors for the same reason."""
from . import terms as T
from .terms import VS, C, vs_of
from .interp import Interp, Sc, Ag, Ar, Rf, Un
from . import harness as H
from .spec import midi

CC14 = 'control_change_14_bit_message::ControlChange14BitMessage'
PNM = 'parameter_number_message::ParameterNumberMessage'
DATATYPE = 'parameter_number_message::DataType'
RAW = 'raw_short_message::RawShortMessage'
ACCESSORS = {
    CC14: ('channel', 'msb_controller_number', 'value'),
    PNM: ('channel', 'number', 'value', 'is_registered', 'is_14_bit', 'data_type'),
}
_roles = {}


def field_roles(F):
    """(struct path, accessor name) -> field path when the accessor returns a stored field as is, else None"""
    key = (F.cfg, F.tree)
    if key not in _roles:
        from .invariants import _accessor_path
        r = {}
        for p, names in ACCESSORS.items():
            for name in names:
                r[(p, name)] = _accessor_path(F, p + '::' + name, p)
        _roles[key] = r
    return _roles[key]


def get_path(v, path):
    for i in path:
        if not isinstance(v, Ag) or i >= len(v.fields):
            return None
        v = v.fields[i]
    return v


def run_accessor(F, key, m, cons, ntok=0, assume_invariants=True):
    """interpret the accessor `key` on the message value m -> [(value, cons, refined m, ntok)] for the returning paths,
    or None when some path does not return (panic, lost, unmodelled callee)"""
    if key not in F.fns:
        return None
    I = Interp(F, assume_invariants=assume_invariants)
    st = I.new_state()
    st.cons.update(cons)
    st.ntok = max(st.ntok, ntok)
    st.root().locals['m'] = m
    outs = [o for o in I.run(key, [Rf(0, 'm', ())], [], st) if o.kind != 'dead']
    if not outs or any(o.kind != 'return' or o.st.notes for o in outs):
        return None
    return [(o.value, o.st.cons, o.st.root().locals['m'], o.st.ntok) for o in outs]


def role_value(F, m, role, cons, ntok=0):
    """what the public accessor `role` returns for message value m (None when it cannot be determined uniquely)"""
    if not isinstance(m, Ag) or m.path not in ACCESSORS:
        return None
    fp = field_roles(F).get((m.path, role))
    if fp is not None:
        return get_path(m, fp)
    r = run_accessor(F, m.path + '::' + role, m, cons, ntok)
    if r is None or len(r) != 1:
        return None
    return r[0][0]


def observe(F, m, cons, ntok=0):
    """role dict of a message value: {'__path': struct, role: value | None}"""
    d = {'__path': m.path}
    for name in ACCESSORS[m.path]:
        d[name] = role_value(F, m, name, cons, ntok)
    return d


def all_direct(F, path):
    R = field_roles(F)
    return all(R.get((path, n)) is not None for n in ACCESSORS[path])


# ------------------------------------------------------------------ building abstract message values

def _set_path(v, path, new):
    if not path:
        return new
    fs = list(v.fields)
    fs[path[0]] = _set_path(fs[path[0]], path[1:], new)
    return Ag(v.path, v.variant, fs)


def build_cc14(F, ch, msb, val, cons):
    """an abstract ControlChange14BitMessage with the given accessor values (terms); cons must bound msb to 0..31"""
    R = field_roles(F)
    if all_direct(F, CC14):
        I = Interp(F, assume_invariants=False)
        st = I.new_state()
        v = I.top_of(st, H.adt_ty(CC14), 'x')
        for role, term, ty in (('channel', ch, 'u8'), ('msb_controller_number', msb, 'u8'), ('value', val, 'u16')):
            v = _set_path(v, R[(CC14, role)], Sc(term, H.INT(ty)))
        return v
    I = Interp(F)
    st = I.new_state()
    st.cons.update(cons)
    outs = [o for o in I.run(CC14 + '::new', [H.nt('Channel', ch), H.nt('ControllerNumber', msb), H.nt('U14', val)], [], st) if o.kind == 'return']
    if len(outs) != 1:
        raise RuntimeError('ControlChange14BitMessage::new has %d returning paths for an in-range message' % len(outs))
    return outs[0].value


PN_CTOR = {('DataEntry', 0): '7_bit', ('DataEntry', 1): '14_bit', ('DataIncrement', 0): 'increment', ('DataDecrement', 0): 'decrement'}


def build_pnm(F, ch, number, value, reg, is14, dtype, cons):
    """an abstract ParameterNumberMessage; reg / is14 are 0 / 1, dtype a DataType variant name"""
    R = field_roles(F)
    if all_direct(F, PNM):
        I = Interp(F, assume_invariants=False)
        st = I.new_state()
        v = I.top_of(st, H.adt_ty(PNM), 'x')
        for role, term, ty in (('channel', ch, 'u8'), ('number', number, 'u16'), ('value', value, 'u16')):
            v = _set_path(v, R[(PNM, role)], Sc(term, H.INT(ty)))
        v = _set_path(v, R[(PNM, 'is_registered')], Sc(C(reg), H.BOOL))
        v = _set_path(v, R[(PNM, 'is_14_bit')], Sc(C(is14), H.BOOL))
        v = _set_path(v, R[(PNM, 'data_type')], Ag(DATATYPE, H.variant_index(F, DATATYPE, dtype), ()))
        return v
    suffix = PN_CTOR.get((dtype, is14))
    if suffix is None:
        raise RuntimeError('no public constructor for data type %s with is_14_bit=%d' % (dtype, is14))
    key = '%s::%s_%s' % (PNM, 'registered' if reg else 'non_registered', suffix)
    I = Interp(F)
    st = I.new_state()
    st.cons.update(cons)
    varg = H.nt('U14', value) if is14 else H.nt('U7', T.mk_cast('u8', value, st.cons))
    outs = [o for o in I.run(key, [H.nt('Channel', ch), H.nt('U14', number), varg], [], st) if o.kind == 'return']
    if len(outs) != 1:
        raise RuntimeError('%s has %d returning paths' % (key, len(outs)))
    return outs[0].value
