"""Helpers to run a body from an abstract entry state."""
from .interp import Interp, State, Frame, Sc, Ag, Ar, Rf, Un, subst_ty
from . import terms as T


def entry_args(I, st, fn, subst=None, hints=None):
    args = []
    for i, ty in enumerate(fn.get('inputs', [])):
        ty = subst_ty(ty, subst)
        args.append(I.top_of(st, ty, (hints or {}).get(i, 'a%d' % (i + 1))))
    return args


def run_fn(F, key, subst=None, hints=None, cons=None, **kw):
    I = Interp(F, **kw)
    st = I.new_state()
    fn = F.fns[key]
    if subst is None:
        subst = [{'k': 'param', 'name': g['name'], 'index': g['index']} if g['kind'] == 'type' else {'k': 'lifetime'}
                 for g in fn['generics']]
    args = entry_args(I, st, fn, subst, hints)
    if cons:
        for k, v in cons.items():
            st.cons[k] = v
    outs = I.run(key, args, subst, st)
    return I, outs, args


def show(outs, I=None):
    for o in outs:
        cons = {T.tstr(k): v for k, v in o.st.cons.items()}
        print('  %-8s %-60r %s %s %s' % (o.kind, o.value, o.why, cons, [T.pred_str(p) for p in o.st.preds]))
        if o.st.notes:
            print('           notes:', o.st.notes)
    if I is not None and I.unmodelled:
        print('  unmodelled:', I.unmodelled)
