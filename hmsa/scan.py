"""E1 helpers: purely structural scans over the exported MIR (no interpretation)."""
from .mirpp import ty_str


def bodies(F, include_promoted=True):
    for k, f in F.fns.items():
        yield k, f, f['body'], None
        if include_promoted:
            for i, pb in enumerate(f.get('promoted', [])):
                yield k, f, pb, i


def aggregate_sites(F, paths):
    """all `Adt` aggregate statements constructing one of `paths`: [(site, path, variant)]"""
    out = []
    for k, f in F.fns.items():
        for bi, blk in enumerate(f['body']['blocks']):
            if blk['cleanup']:
                continue
            for si, s in enumerate(blk['stmts']):
                if s['k'] == 'assign' and s['rv']['k'] == 'aggregate' and s['rv']['kind']['k'] == 'adt' \
                        and s['rv']['kind']['path'] in paths:
                    out.append(((k, bi, si), s['rv']['kind']['path'], s['rv']['kind']['variant']))
            # constructor functions: called directly, or handed to a combinator (`.map(U7)`) of this call
            t = blk['term']
            if t['k'] == 'call':
                cands = [t['f'].get('fn')] + [a.get('fn') for a in t['args'] if a.get('k') == 'const']
                for c in cands:
                    if c and c.get('kind', '').startswith('Ctor') and c.get('ctor_adt') in paths:
                        out.append(((k, bi, 't'), c['ctor_adt'], int(c.get('ctor_variant', 0))))
    return out


def call_sites(F):
    """[(site, callee dict)] for all non-cleanup call terminators"""
    out = []
    for k, f, body, pi in bodies(F):
        for bi, blk in enumerate(body['blocks']):
            if blk['cleanup']:
                continue
            t = blk['term']
            if t['k'] == 'call':
                out.append(((k, bi, 't') if pi is None else (k, bi, 'p%d' % pi), t['f'].get('fn'), t))
    return out


def callers_of(F):
    """static call graph (callee key -> set of caller keys), using resolved targets where known"""
    cg = {}
    for site, c, t in call_sites(F):
        if c is None:
            continue
        for key in (c.get('path'), c.get('resolved')):
            if key:
                cg.setdefault(key, set()).add(site[0])
    return cg


def place_type(F, body, place):
    """type of a place (following field / deref / downcast / index projections)"""
    ty = body['locals'][place['local']]
    for p in place['proj']:
        k = p['k']
        if k == 'deref':
            ty = ty.get('ty') if ty['k'] in ('ref', 'ptr') else None
        elif k == 'field':
            ty = p['ty']
        elif k in ('index', 'cindex'):
            ty = ty.get('ty') if ty['k'] in ('array', 'slice') else None
        elif k == 'downcast':
            pass
        else:
            ty = None
        if ty is None:
            return None
    return ty


def parent_types_of_field_writes(F):
    """[(site, parent type, field index)] for every assignment whose destination ends in a field projection"""
    out = []
    for k, f, body, pi in bodies(F, include_promoted=False):
        for bi, blk in enumerate(body['blocks']):
            if blk['cleanup']:
                continue
            dests = [(si, s['place']) for si, s in enumerate(blk['stmts']) if s['k'] == 'assign']
            if blk['term']['k'] == 'call':
                dests.append(('t', blk['term']['dest']))
            for si, pl in dests:
                proj = pl['proj']
                for n, p in enumerate(proj):
                    if p['k'] == 'field':
                        parent = place_type(F, body, {'local': pl['local'], 'proj': proj[:n]})
                        if parent is not None:
                            out.append(((k, bi, si), parent, p['i'], n == len(proj) - 1))
    return out


def unsafe_constructs(F):
    """transmutes, raw pointer creation/deref, unions, mutable statics: [(kind, site, text)]"""
    out = []
    for k, f, body, pi in bodies(F):
        for li, l in enumerate(body['locals']):
            if l['k'] == 'ptr':
                out.append(('raw-pointer-local', (k, 0, 0), ty_str(l)))
        for bi, blk in enumerate(body['blocks']):
            if blk['cleanup']:
                continue
            for si, s in enumerate(blk['stmts']):
                if s['k'] != 'assign':
                    continue
                rv = s['rv']
                if rv['k'] == 'cast' and rv['kind'].startswith('Transmute'):
                    out.append(('transmute', (k, bi, si), '%s -> %s' % (ty_str(rv['from']), ty_str(rv['ty']))))
                if rv['k'] == 'rawptr':
                    out.append(('raw-pointer', (k, bi, si), ''))
    for a in F.adts.values():
        if a['kind'] == 'union':
            out.append(('union', None, a['path']))
    for s in F.statics:
        if s['mutable']:
            out.append(('static-mut', None, s['path']))
    return out


def in_macro(span, name_part):
    return any(name_part in m for m in span.get('macros', []))


def is_serde_generated(F, key):
    f = F.fns.get(key)
    if f is None:
        return False
    sp = f['span']
    return any(('Deserialize' in m or 'Serialize' in m) for m in sp.get('macros', [])) or '::_::' in key or key.endswith('::_')
