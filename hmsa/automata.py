"""E3 — scanner automata: extraction of the one-step transition function of a per-channel scanner
by abstract interpretation over symbolic typestates, and the synchronous product with the reference
automaton (spec/automata.py).  "For all histories" follows by induction on the history length: both
automata are deterministic given the recorded predicates, the product is closed under every input
class, and outputs agree on every reachable pair.
"""
from . import terms as T
from .terms import VS, C, vs_of
from .interp import Interp, Sc, Ag, Ar, Rf, Un, INT, val_key
from .models import find_impl
from . import harness as H
from .spec import midi
from .spec.automata import Cur

CUR_STATUS, CUR_D1, CUR_D2 = T.T('cur.status', 'u8'), T.T('cur.d1', 'u8'), T.T('cur.d2', 'u8')
POLL_CH = T.T('poll.ch', 'u8')
NONCC_STATUS = VS.of([s for s in range(0x80, 0x100) if not 0xB0 <= s <= 0xBF])
CC14 = 'control_change_14_bit_message::ControlChange14BitMessage'
PNM = 'parameter_number_message::ParameterNumberMessage'
DATATYPE = 'parameter_number_message::DataType'


# ------------------------------------------------------------------ renaming

def rename_term(t, m):
    k = t[0]
    if k == 'c':
        return t
    if k == 't':
        return m.get(t, t)
    if k == 'cast':
        return ('cast', t[1], rename_term(t[2], m))
    if k == 'op':
        return ('op', t[1], rename_term(t[2], m), rename_term(t[3], m), t[4])
    if k == 'cmp':
        return ('cmp', t[1], rename_term(t[2], m), rename_term(t[3], m))
    if k == 'not':
        return ('not', rename_term(t[1], m))
    if k == 'app':
        return ('app', t[1], tuple(rename_term(a, m) for a in t[2]))
    return t


def rename_value(v, m):
    if isinstance(v, Sc):
        return Sc(rename_term(v.term, m), v.ty)
    if isinstance(v, Ag):
        return Ag(v.path, v.variant, [rename_value(f, m) for f in v.fields])
    if isinstance(v, Ar):
        return Ar([rename_value(e, m) for e in v.elems])
    return v


def rename_spec(s, m):
    if isinstance(s, tuple):
        if s and s[0] in ('c', 't', 'cast', 'op', 'cmp', 'not', 'app') and _is_term(s):
            return rename_term(s, m)
        return tuple(rename_spec(x, m) for x in s)
    return s


def _is_term(s):
    k = s[0]
    if k == 'c':
        return len(s) == 2 and isinstance(s[1], int)
    if k == 't':
        return len(s) == 3 and isinstance(s[1], str)
    return k in ('cast', 'op', 'cmp', 'not', 'app')


def value_tokens(v, acc):
    if isinstance(v, Sc):
        for t in sorted(T.tokens_of(v.term), key=repr):
            if t not in acc:
                acc.append(t)
    elif isinstance(v, Ag):
        for f in v.fields:
            value_tokens(f, acc)
    elif isinstance(v, Ar):
        for e in v.elems:
            value_tokens(e, acc)


def term_tokens_ordered(t, acc):
    k = t[0]
    if k == 't':
        if t not in acc:
            acc.append(t)
    elif k == 'cast':
        term_tokens_ordered(t[2], acc)
    elif k in ('op', 'cmp'):
        term_tokens_ordered(t[2], acc)
        term_tokens_ordered(t[3], acc)
    elif k == 'not':
        term_tokens_ordered(t[1], acc)
    elif k == 'app':
        for a in t[2]:
            term_tokens_ordered(a, acc)


def value_tokens_ordered(v, acc):
    if isinstance(v, Sc):
        term_tokens_ordered(v.term, acc)
    elif isinstance(v, Ag):
        for f in v.fields:
            value_tokens_ordered(f, acc)
    elif isinstance(v, Ar):
        for e in v.elems:
            value_tokens_ordered(e, acc)


def spec_tokens_ordered(s, acc):
    if isinstance(s, tuple):
        if s and _is_term_safe(s):
            term_tokens_ordered(s, acc)
        else:
            for x in s:
                spec_tokens_ordered(x, acc)


def _is_term_safe(s):
    return isinstance(s[0], str) and s[0] in ('c', 't', 'cast', 'op', 'cmp', 'not', 'app') and _is_term(s)


def canonical_pair(code_state, spec_state, cons):
    """rename all tokens by order of first appearance -> (code', spec', cons', key)"""
    toks = []
    value_tokens_ordered(code_state, toks)
    spec_tokens_ordered(spec_state, toks)
    m = {}
    for i, t in enumerate(toks):
        m[t] = ('t', 's%d' % i, t[2])
    c2 = rename_value(code_state, m)
    s2 = rename_spec(spec_state, m)
    cons2 = {}
    for t in toks:
        if t in cons:
            cons2[m[t]] = cons[t]
    key = (val_key(c2), repr(s2), tuple(sorted((k[1], v.key()) for k, v in cons2.items())))
    return c2, s2, cons2, key, m


# ------------------------------------------------------------------ the scanner under analysis

def find_adt(F, last):
    hits = [p for p in F.adts if p.split('::')[-1] == last]
    return hits


class ScannerModel(object):
    """locates the outer scanner type, its per-channel element type and the element's methods"""

    def __init__(self, F, public_name):
        self.F = F
        self.public_name = public_name
        outs = [p for p in find_adt(F, public_name) if F.adts[p]['vis'] == 'Public']
        if len(outs) != 1:
            raise RuntimeError('public scanner type %s not found (%r)' % (public_name, outs))
        self.outer = outs[0]
        a = F.adts[self.outer]
        fs = a['variants'][0]['fields']
        arr = [f for f in fs if f['ty']['k'] == 'array']
        if len(fs) != 1 or len(arr) != 1 or arr[0]['ty']['ty']['k'] != 'adt':
            raise RuntimeError('%s is not a single array of per-channel scanners: %r' % (self.outer, [(f['name'], f['ty']['k']) for f in fs]))
        self.array_len = arr[0]['ty']['len']
        self.array_field_private = arr[0]['vis'] != 'Public'
        self.sub = arr[0]['ty']['ty']['path']
        self.sub_ty = arr[0]['ty']['ty']
        self.outer_ty = H.adt_ty(self.outer)
        self.methods = {}
        for name in ('feed', 'poll', 'reset'):
            ok = self.outer + '::' + name
            if ok in F.fns:
                self.methods[name] = (ok, self._callee(ok))

    def _callee(self, outer_key):
        # the element method called by the outer method (directly or from one of its closures)
        keys = [outer_key] + sorted(k for k in self.F.fns if k.startswith(outer_key + '::{closure'))
        for k in keys:
            fn = self.F.fns[k]
            for blk in fn['body']['blocks']:
                if blk['cleanup']:
                    continue
                t = blk['term']
                if t['k'] == 'call' and t['f'].get('fn') and t['f']['fn']['local']:
                    c = t['f']['fn']
                    sel = c.get('impl_self')
                    if sel and sel['k'] == 'adt' and sel['path'] == self.sub:
                        return c['path']
        # fall back to the element type's own method of the same name
        name = outer_key.split('::')[-1]
        cand = self.sub + '::' + name
        return cand if cand in self.F.fns else None

    def sub_key(self, name):
        m = self.methods.get(name)
        return m[1] if m else None


def msg_roles(F):
    """field paths of the message structs by public accessor name"""
    from .invariants import _accessor_path
    r = {}
    for name in ('channel', 'msb_controller_number', 'value'):
        r[(CC14, name)] = _accessor_path(F, CC14 + '::' + name, CC14)
    for name in ('channel', 'number', 'value', 'is_registered', 'is_14_bit', 'data_type'):
        r[(PNM, name)] = _accessor_path(F, PNM + '::' + name, PNM)
    return r


def get_path(v, path):
    for i in path:
        if not isinstance(v, Ag) or i >= len(v.fields):
            return None
        v = v.fields[i]
    return v


class Row(object):
    __slots__ = ('pair_key', 'cname', 'kind', 'outcome_kind', 'preds', 'outputs', 'next_key', 'code_in', 'code_out',
                 'spec_in', 'spec_out', 'cons_in', 'cons_out', 'events', 'why', 'now_tokens', 'identity', 'ret', 'rename')


class Product(object):
    def __init__(self):
        self.pairs = {}          # key -> (code_state, spec_state, cons)
        self.rows = []
        self.mismatches = []     # (pair_key, cname, text)
        self.order = []
        self.init_keys = []


def class_cons(cname, kind, rng):
    c = {CUR_D1: VS(0, 127), CUR_D2: VS(0, 127)}
    if kind == 'cc':
        c[CUR_STATUS] = VS(0xB0, 0xBF)
        c[CUR_D1] = VS(rng[0], rng[1])
    elif kind == 'noncc':
        c[CUR_STATUS] = NONCC_STATUS
    elif kind == 'poll':
        c = {POLL_CH: VS(0, 15)}
    else:
        c = {}
    return c


def run_step(F, model, kind, code_state, cons, status=CUR_STATUS, d1=CUR_D1, d2=CUR_D2):
    """one abstract step of the per-channel scanner -> (interp, outcomes); new state = root['self']"""
    hooks = H.msg_hooks(status, d1, d2)
    I = Interp(F, abstract_methods=hooks)
    st = I.new_state()
    st.cons.update(cons)
    st.root().locals['self'] = code_state
    selfref = Rf(0, 'self', (), True)
    if kind in ('cc', 'noncc', 'feed'):
        key = model.sub_key('feed')
        st.root().locals['msg'] = Sc(T.T('msg', 'opaque'), H.param('impl ShortMessage', 0))
        outs = I.run(key, [selfref, Rf(0, 'msg', ())], [H.param('impl ShortMessage', 0)], st)
    elif kind == 'poll':
        key = model.sub_key('poll')
        outs = I.run(key, [selfref, H.nt('Channel', POLL_CH)], [], st)
    elif kind == 'reset':
        key = model.sub_key('reset')
        outs = I.run(key, [selfref], [], st)
    else:
        raise ValueError(kind)
    return I, outs


def initial_states(F, model, spec):
    """[(label, code state, spec state, cons)]"""
    res = []
    hit = find_impl(Interp(F), 'core::default::Default', 'default', [model.sub_ty])
    if hit:
        I = Interp(F)
        outs = I.run(hit[0], [], hit[1])
        if len(outs) == 1 and outs[0].kind == 'return':
            v = outs[0].value
            to = None
            if spec.has_poll:
                to = ('app', 'Duration::default', ())
            res.append(('default', v, spec.init(to), {}))
    newk = model.outer + '::new'
    if newk in F.fns and spec.has_poll:
        I = Interp(F)
        st = I.new_state()
        tok = T.T('timeout', 'opaque')
        outs = I.run(newk, [Sc(tok, {'k': 'adt', 'path': 'core::time::Duration', 'krate': 'core', 'args': []})], [], st)
        if len(outs) == 1 and outs[0].kind == 'return':
            arr = outs[0].value.fields[0] if isinstance(outs[0].value, Ag) else None
            if isinstance(arr, Ar) and arr.elems:
                res.append(('new(timeout)', arr.elems[0], spec.init(tok), {}))
    return res


def extract_outputs(F, roles, ret):
    """normalise the return value of feed/poll to a list of message role dicts (or None = malformed)"""
    def one(v):
        p = H.opt_payload(v)
        if p is None:
            return 'bad'
        if p[0] == 'none':
            return None
        m = p[1]
        if not isinstance(m, Ag) or m.path not in (CC14, PNM):
            return 'bad'
        d = {'__path': m.path}
        for (path, name), fp in roles.items():
            if path == m.path:
                d[name] = get_path(m, fp) if fp is not None else None
        return d
    if isinstance(ret, Ar):
        items = [one(e) for e in ret.elems]
    else:
        items = [one(ret)]
    if any(x == 'bad' for x in items):
        return None
    # a later slot filled while an earlier one is empty is malformed (C14: never a second without a first)
    seen_none = False
    out = []
    for x in items:
        if x is None:
            seen_none = True
        else:
            if seen_none:
                return None
            out.append(x)
    return out


def msg_equal(F, got, want, cons):
    """compare an extracted message with the spec's role dict -> (ok, text)"""
    for role, wt in want.items():
        g = got.get(role)
        if g is None:
            return False, 'role %s not found in the reported message' % role
        if role == 'data_type':
            if not isinstance(g, Ag):
                return False, 'data type is %r' % (g,)
            vn = H.variant_name(F, g)
            if vn != wt:
                return False, 'data type %s, expected %s' % (vn, wt)
            continue
        s = H.scalar_of(g)
        if s is None:
            return False, 'role %s is %r' % (role, g)
        if not H.same(s.term, wt, cons):
            return False, '%s = %s, expected %s' % (role, H.describe(g, cons), T.bits_str(T.bits_of(wt, cons, 16)) if T.bits_of(wt, cons, 16) else T.tstr(wt))
    return True, ''


def walk_tree(tree, preds, cons):
    """leaves of the spec decision tree compatible with the recorded predicates of a code outcome"""
    if tree[0] == 'leaf':
        return [tree]
    _, pred, a, b = tree
    v = vs_of(T.mk_cmp(pred[1], pred[2], pred[3], cons), cons) if pred[0] == 'cmp' else T.BOOLVS
    if v.single():
        return walk_tree(a if v.lo == 1 else b, preds, cons)
    p = T.norm_pred(pred, True, cons)
    if p[0] == 'const':
        return walk_tree(a if (p[1] == p[2]) else b, preds, cons)
    for q in preds:
        if q[0] == p[0] and q[1] == p[1]:
            return walk_tree(a if q[2] == p[2] else b, preds, cons)
    return walk_tree(a, preds, cons) + walk_tree(b, preds, cons)


def explore(F, model, spec, max_pairs=400):
    roles = msg_roles(F)
    P = Product()
    P.roles = roles
    work = []
    for label, cs, ss, cons in initial_states(F, model, spec):
        c2, s2, cons2, key, _m = canonical_pair(cs, ss, cons)
        if key not in P.pairs:
            P.pairs[key] = (c2, s2, cons2, label)
            P.order.append(key)
            work.append(key)
        P.init_keys.append((label, key))
    P.steps = 0
    P.fns = set()
    while work:
        key = work.pop(0)
        cs, ss, cons, _ = P.pairs[key]
        for cname, kind, rng in spec.classes:
            if kind == 'poll' and not model.sub_key('poll'):
                P.mismatches.append((key, cname, 'scanner has no poll method'))
                continue
            if kind == 'reset' and not model.sub_key('reset'):
                continue      # no per-element reset method: the outer reset is interpreted as a whole by C17
            c0 = dict(cons)
            c0.update(class_cons(cname, kind, rng))
            I, outs = run_step(F, model, kind, cs, c0)
            P.steps += I.total_steps
            P.fns |= I.fns_entered
            for o in outs:
                row = Row()
                row.pair_key, row.cname, row.kind = key, cname, kind
                row.outcome_kind, row.why = o.kind, o.why
                row.preds = list(o.st.preds)
                row.code_in, row.spec_in, row.cons_in = cs, ss, c0
                row.events = list(o.st.events)
                row.now_tokens = [e[1] for e in o.st.events if e[0] == 'now']
                row.cons_out = o.st.cons
                row.ret = o.value
                row.next_key = None
                row.outputs = None
                row.code_out = None
                row.spec_out = None
                row.identity = None
                row.rename = None
                P.rows.append(row)
                if o.kind != 'return':
                    P.mismatches.append((key, cname, '%s outcome: %s' % (o.kind, o.why)))
                    continue
                if o.st.notes:
                    P.mismatches.append((key, cname, 'unmodelled callee on the path: %s' % o.st.notes[:2]))
                    continue
                new_code = o.st.root().locals['self']
                row.code_out = new_code
                row.identity = val_key(new_code) == val_key(cs)
                if kind == 'poll':
                    cur = Cur(POLL_CH, None, None, None)
                elif kind == 'reset':
                    cur = Cur(None, None, None, None)
                else:
                    cur = Cur(H.t_low_nibble(CUR_STATUS, o.st.cons), CUR_D1, CUR_D2, row.now_tokens[0] if len(row.now_tokens) == 1 else None)
                tree = spec.step(ss, cname, kind, cur)
                leaves = walk_tree(tree, row.preds, o.st.cons)
                outputs = extract_outputs(F, roles, o.value) if kind != 'reset' else []
                row.outputs = outputs
                if outputs is None:
                    P.mismatches.append((key, cname, 'malformed result %r' % (o.value,)))
                    continue
                nxt_spec = None
                bad = False
                for lf in leaves:
                    _, want, nspec = lf
                    if len(want) != len(outputs):
                        P.mismatches.append((key, cname, 'reports %d message(s) %r, expected %d %s' % (
                            len(outputs), o.value, len(want), '(under %s)' % [T.pred_str(p) for p in row.preds] if row.preds else '')))
                        bad = True
                        break
                    for g, w in zip(outputs, want):
                        ok, txt = msg_equal(F, g, w, o.st.cons)
                        if not ok:
                            P.mismatches.append((key, cname, 'reported message differs: %s (result %r)' % (txt, o.value)))
                            bad = True
                            break
                    if bad:
                        break
                    if nxt_spec is not None and repr(nxt_spec) != repr(nspec):
                        P.mismatches.append((key, cname, 'the code does not distinguish a case the property distinguishes (successor states %r / %r)' % (nxt_spec, nspec)))
                        bad = True
                        break
                    nxt_spec = nspec
                if bad or nxt_spec is None:
                    continue
                if _spec_needs_now(nxt_spec):
                    P.mismatches.append((key, cname, 'a pending value is stored without taking a time stamp in this call'))
                    continue
                row.spec_out = nxt_spec
                # rename the current-input tokens so that they become state tokens of the next pair
                c2, s2, cons2, nkey, m = canonical_pair(new_code, nxt_spec, o.st.cons)
                row.next_key = nkey
                row.rename = m
                if nkey not in P.pairs:
                    if len(P.pairs) >= max_pairs:
                        P.mismatches.append((key, cname, 'state space does not close within %d abstract pairs' % max_pairs))
                        continue
                    P.pairs[nkey] = (c2, s2, cons2, None)
                    P.order.append(nkey)
                    work.append(nkey)
    return P


def _spec_needs_now(s):
    return isinstance(s, tuple) and any(x is None for x in s[-1:]) and s and s[0] in ('P6', 'P38')


_product_cache = {}


def product_for(F, spec_cls, public_name):
    k = (F.cfg, F.tree, public_name)
    if k not in _product_cache:
        model = ScannerModel(F, public_name)
        spec = spec_cls()
        _product_cache[k] = (model, spec, explore(F, model, spec))
    return _product_cache[k]


def spec_shape(ss):
    """stable label of a spec state: tag, presence of optional slots, constant flags"""
    def one(x):
        if x is None:
            return '-'
        if isinstance(x, str):
            return x
        if isinstance(x, tuple) and x and x[0] == 'c':
            return str(x[1])
        if isinstance(x, tuple) and x and x[0] == 'app':
            return x[1]
        return '_'
    return '(' + ','.join(one(x) for x in ss) + ')'


def typestate_label(F, v):
    """short human-readable shape of a state value"""
    if isinstance(v, Ag):
        a = F.adts.get(v.path)
        name = a['variants'][v.variant]['name'] if a and a['kind'] == 'enum' else (v.path.split('::')[-1] if v.path not in ('()',) else '')
        if v.path == 'core::option::Option':
            return 'Some(%s)' % typestate_label(F, v.fields[0]) if v.variant == 1 else 'None'
        inner = ','.join(typestate_label(F, f) for f in v.fields)
        return '%s(%s)' % (name, inner) if inner else name
    if isinstance(v, Sc):
        return T.tstr(v.term)
    return repr(v)
