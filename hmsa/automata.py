"""E3 — scanner automata: extraction of the one-step transition function of a per-channel scanner
by abstract interpretation over symbolic typestates, and the synchronous product with the reference
automaton (spec/automata.py).  "For all histories" follows by induction on the history length: both
automata are deterministic given the recorded predicates, the product is closed under every input
class, and outputs agree on every reachable pair.
"""
from . import terms as T
from .terms import VS, C, vs_of
from .interp import Interp, Sc, Ag, Ar, Rf, Un, INT, val_key
from .models import find_impl
from . import harness as H
from .spec import midi
from .spec.automata import Cur

CUR_STATUS, CUR_D1, CUR_D2 = T.T('cur.status', 'u8'), T.T('cur.d1', 'u8'), T.T('cur.d2', 'u8')
POLL_CH = T.T('poll.ch', 'u8')
NONCC_STATUS = VS.of([s for s in range(0x80, 0x100) if not 0xB0 <= s <= 0xBF])
CC14 = 'control_change_14_bit_message::ControlChange14BitMessage'
PNM = 'parameter_number_message::ParameterNumberMessage'
DATATYPE = 'parameter_number_message::DataType'


# ------------------------------------------------------------------ renaming

def rename_term(t, m):
    k = t[0]
    if k == 'c':
        return t
    if k == 't':
        return m.get(t, t)
    if k == 'cast':
        return ('cast', t[1], rename_term(t[2], m))
    if k == 'op':
        return ('op', t[1], rename_term(t[2], m), rename_term(t[3], m), t[4])
    if k == 'cmp':
        return ('cmp', t[1], rename_term(t[2], m), rename_term(t[3], m))
    if k == 'not':
        return ('not', rename_term(t[1], m))
    if k == 'app':
        return ('app', t[1], tuple(rename_term(a, m) for a in t[2]))
    return t


def rename_value(v, m):
    if isinstance(v, Sc):
        return Sc(rename_term(v.term, m), v.ty)
    if isinstance(v, Ag):
        return Ag(v.path, v.variant, [rename_value(f, m) for f in v.fields])
    if isinstance(v, Ar):
        return Ar([rename_value(e, m) for e in v.elems])
    return v


def rename_spec(s, m):
    if isinstance(s, tuple):
        if s and s[0] in ('c', 't', 'cast', 'op', 'cmp', 'not', 'app') and _is_term(s):
            return rename_term(s, m)
        return tuple(rename_spec(x, m) for x in s)
    return s


def _is_term(s):
    k = s[0]
    if k == 'c':
        return len(s) == 2 and isinstance(s[1], int)
    if k == 't':
        return len(s) == 3 and isinstance(s[1], str)
    return k in ('cast', 'op', 'cmp', 'not', 'app')


def value_tokens(v, acc):
    if isinstance(v, Sc):
        for t in sorted(T.tokens_of(v.term), key=repr):
            if t not in acc:
                acc.append(t)
    elif isinstance(v, Ag):
        for f in v.fields:
            value_tokens(f, acc)
    elif isinstance(v, Ar):
        for e in v.elems:
            value_tokens(e, acc)


def term_tokens_ordered(t, acc):
    k = t[0]
    if k == 't':
        if t not in acc:
            acc.append(t)
    elif k == 'cast':
        term_tokens_ordered(t[2], acc)
    elif k in ('op', 'cmp'):
        term_tokens_ordered(t[2], acc)
        term_tokens_ordered(t[3], acc)
    elif k == 'not':
        term_tokens_ordered(t[1], acc)
    elif k == 'app':
        for a in t[2]:
            term_tokens_ordered(a, acc)


def value_tokens_ordered(v, acc):
    if isinstance(v, Sc):
        term_tokens_ordered(v.term, acc)
    elif isinstance(v, Ag):
        for f in v.fields:
            value_tokens_ordered(f, acc)
    elif isinstance(v, Ar):
        for e in v.elems:
            value_tokens_ordered(e, acc)


def spec_tokens_ordered(s, acc):
    if isinstance(s, tuple):
        if s and _is_term_safe(s):
            term_tokens_ordered(s, acc)
        else:
            for x in s:
                spec_tokens_ordered(x, acc)


def _is_term_safe(s):
    return isinstance(s[0], str) and s[0] in ('c', 't', 'cast', 'op', 'cmp', 'not', 'app') and _is_term(s)


def canonical_pair(code_state, spec_state, cons):
    """rename all tokens by order of first appearance -> (code', spec', cons', key)"""
    toks = []
    value_tokens_ordered(code_state, toks)
    spec_tokens_ordered(spec_state, toks)
    m = {}
    for i, t in enumerate(toks):
        m[t] = ('t', 's%d' % i, t[2])
    c2 = rename_value(code_state, m)
    s2 = rename_spec(spec_state, m)
    cons2 = {}
    for t in toks:
        if t in cons:
            cons2[m[t]] = cons[t]
    key = (val_key(c2), repr(s2), tuple(sorted((k[1], v.key()) for k, v in cons2.items())))
    return c2, s2, cons2, key, m


# ------------------------------------------------------------------ the scanner under analysis

def find_adt(F, last):
    hits = [p for p in F.adts if p.split('::')[-1] == last]
    return hits


STATE = '<channel state>'       # wrapper: (per-channel element, tuple of the other outer fields)


class ScannerModel(object):
    """The outer scanner type seen from one channel: array(s) of 16 per-channel elements plus, possibly,
    further fields shared by all channels (e.g. a timeout).  The analysis always goes through the *outer*
    public methods with a concrete channel k; nothing is assumed about how the element is processed.
    The struct is seen through its *leaves*: private wrapper structs around the array (`PerChannel<T>([T; 16])`)
    or around groups of fields are looked through."""

    def __init__(self, F, public_name):
        self.F = F
        self.public_name = public_name
        outs = [p for p in find_adt(F, public_name) if F.adts[p]['vis'] == 'Public']
        if len(outs) != 1:
            raise RuntimeError('public scanner type %s not found (%r)' % (public_name, outs))
        self.outer = outs[0]
        a = F.adts[self.outer]
        self.fields = a['variants'][0]['fields']
        self.outer_ty = H.adt_ty(self.outer)
        # leaves: (path of field indices, type, dotted name)
        self.leaves = []
        self._collect(self.outer_ty, (), '')
        self.arrays = [p for p, ty, n in self.leaves if ty['k'] == 'array' and ty.get('len') == 16]
        if not self.arrays:
            raise RuntimeError('%s has no per-channel array of 16 elements: %r' % (
                self.outer, [(n, ty['k'], ty.get('len')) for p, ty, n in self.leaves]))
        self.leaf_ty = dict((p, ty) for p, ty, n in self.leaves)
        self.leaf_name = dict((p, n) for p, ty, n in self.leaves)
        self.ai = self.arrays[0]
        self.extra = [p for p, ty, n in self.leaves if p not in self.arrays]
        # an integer field with at least one bit per channel is seen as 16 per-channel bits: bit k belongs to the state of
        # channel k, the other bits to the other channels (a write that changes them is interference)
        self.bitsets = [p for p in self.extra if self.leaf_ty[p]['k'] == 'int'
                        and self.leaf_ty[p]['name'] in ('u16', 'u32', 'u64', 'usize', 'i32', 'i64', 'u128')]
        self.array_len = 16
        self.array_field_private = all(f['vis'] != 'Public' for f in self.fields)
        self.elem_tys = [self.leaf_ty[p]['ty'] for p in self.arrays]
        self.sub_ty = self.elem_tys[0] if len(self.arrays) == 1 else {'k': 'tuple', 'tys': self.elem_tys}
        self.sub = self.sub_ty['path'] if self.sub_ty['k'] == 'adt' else None
        self.methods = {}
        for name in ('feed', 'poll', 'reset', 'new'):
            ok = self.outer + '::' + name
            if ok in F.fns:
                self.methods[name] = (ok, self._callee(ok))

    def _collect(self, ty, path, name, depth=0):
        from .interp import subst_ty
        ad = self.F.adts.get(ty['path']) if ty['k'] == 'adt' else None
        if ad is not None and ad['kind'] == 'struct' and depth < 4 and (depth == 0 or ad['variants'][0]['fields']):
            for i, f in enumerate(ad['variants'][0]['fields']):
                self._collect(subst_ty(f['ty'], ty.get('args') or []), path + (i,), (name + '.' if name else '') + f['name'], depth + 1)
            return
        self.leaves.append((path, ty, name))

    def _node_ty(self, path):
        from .interp import subst_ty
        ty = self.outer_ty
        for i in path:
            ad = self.F.adts[ty['path']]
            ty = subst_ty(ad['variants'][0]['fields'][i]['ty'], ty.get('args') or [])
        return ty

    def _callee(self, outer_key):
        # the element method called by the outer method, if there is one (used for reporting only)
        if self.sub is None:
            return None
        keys = [outer_key] + sorted(k for k in self.F.fns if k.startswith(outer_key + '::{closure'))
        for k in keys:
            fn = self.F.fns[k]
            for blk in fn['body']['blocks']:
                if blk['cleanup']:
                    continue
                t = blk['term']
                if t['k'] == 'call' and t['f'].get('fn') and t['f']['fn']['local']:
                    c = t['f']['fn']
                    sel = c.get('impl_self')
                    if sel and sel['k'] == 'adt' and sel['path'] == self.sub:
                        return c['path']
        return None

    def sub_key(self, name):
        """function to name in reports for method `name`: the element method when there is one, else the outer method"""
        m = self.methods.get(name)
        if not m:
            return None
        return m[1] or m[0]

    def outer_key(self, name):
        m = self.methods.get(name)
        return m[0] if m else None

    # ---- access by leaf path
    def get(self, v, path):
        for i in path:
            if not isinstance(v, Ag) or i >= len(v.fields):
                return None
            v = v.fields[i]
        return v

    def put(self, v, path, new):
        if not path:
            return new
        fs = list(v.fields)
        fs[path[0]] = self.put(fs[path[0]], path[1:], new)
        return Ag(v.path, v.variant, fs)

    def assemble(self, leafvals):
        """outer value from {leaf path: value}"""
        def node(ty, path):
            if path in leafvals:
                return leafvals[path]
            ad = self.F.adts[ty['path']]
            from .interp import subst_ty
            return Ag(ty['path'], 0, [node(subst_ty(f['ty'], ty.get('args') or []), path + (i,)) for i, f in enumerate(ad['variants'][0]['fields'])])
        return node(self.outer_ty, ())

    # ---- tracked per-channel state <-> outer value
    def others_tok(self, p):
        return T.T('others.%s' % self.leaf_name[p], self.leaf_ty[p]['name'])

    def bit_of(self, v, k, cons):
        """bit k of a shared integer as a one-bit value: constant, a one-bit state token, or unknown"""
        if not isinstance(v, Sc):
            return Un({'k': 'bool'}, 'bit of %r' % (v,))
        b = T.bits_of(v.term, cons, 32)
        if b is None or k >= len(b):
            return Un({'k': 'bool'}, 'bit %d of %s' % (k, T.tstr(v.term)))
        x = b[k]
        if x in (0, 1):
            return Sc(C(x), H.BOOL)
        if x != T.UNK and x[1][1].startswith('bit.') and x[2] == 0:
            return Sc(x[1], H.BOOL)
        return Un({'k': 'bool'}, 'bit %d of %s' % (k, T.tstr(v.term)))

    def arrays_ok(self, outer_val):
        return isinstance(outer_val, Ag) and all(isinstance(self.get(outer_val, p), Ar) and len(self.get(outer_val, p).elems) == 16
                                                 for p in self.arrays)

    def elem(self, outer_val, k):
        """the per-channel state of channel k (a tuple of the k-th elements when there are several arrays)"""
        if len(self.arrays) == 1:
            return self.get(outer_val, self.ai).elems[k]
        return Ag('()', 0, [self.get(outer_val, p).elems[k] for p in self.arrays])

    def uniform(self, outer_val):
        return self.arrays_ok(outer_val) and all(val_key(self.elem(outer_val, j)) == val_key(self.elem(outer_val, 0)) for j in range(16))

    def top_others(self):
        """{array leaf: 16 fresh typed tops}"""
        return dict((p, [Un(ty, 'channel %d' % j) for j in range(16)]) for p, ty in zip(self.arrays, self.elem_tys))

    def copies_of(self, elem):
        parts = [elem] if len(self.arrays) == 1 else list(elem.fields)
        return dict((p, [parts[n]] * 16) for n, p in enumerate(self.arrays))

    def wrap(self, outer_val, k, cons=None):
        ex = []
        for p in self.extra:
            v = self.get(outer_val, p)
            ex.append(self.bit_of(v, k, cons or {}) if p in self.bitsets else v)
        return Ag(STATE, 0, [self.elem(outer_val, k), Ag('()', 0, ex)])

    def build(self, state, k, others, cons=None):
        leafvals = {}
        parts = [state.fields[0]] if len(self.arrays) == 1 else list(state.fields[0].fields)
        for n, p in enumerate(self.arrays):
            leafvals[p] = Ar([parts[n] if j == k else others[p][j] for j in range(16)])
        for n, p in enumerate(self.extra):
            v = state.fields[1].fields[n]
            if p in self.bitsets:
                name = self.leaf_ty[p]['name']
                ot = self.others_tok(p)
                full = T.ty_vs(name) if T.ty_vs(name).lo >= 0 else VS(0, (1 << 31) - 1)
                if cons is not None and ot not in cons:
                    cons[ot] = full
                rest = T.mk_op('BitAnd', ot, C(full.hi & ~(1 << k)), None, cons or {})
                if isinstance(v, Sc) and v.term == C(0):
                    term = rest
                elif isinstance(v, Sc):
                    term = T.mk_op('BitOr', rest, T.mk_op('Shl', v.term, C(k), None, cons or {}), None, cons or {})
                else:
                    term = ot        # unknown own bit: the field is entirely unknown
                v = Sc(term, self.leaf_ty[p])
            leafvals[p] = v
        return self.assemble(leafvals)

    def foreign_bits_changed(self, after, k, cons):
        """[(field name, bits)] of per-channel bit sets whose bits of *other* channels differ from what they were"""
        out = []
        for p in self.bitsets:
            v = self.get(after, p)
            ot = self.others_tok(p)
            b = T.bits_of(v.term, cons, 32) if isinstance(v, Sc) else None
            bad = []
            for j in range(16):
                if j == k:
                    continue
                if b is None or j >= len(b) or b[j] == T.UNK or b[j] in (0, 1) or not (b[j][1] == ot and b[j][2] == j):
                    bad.append(j)
            if bad:
                out.append((self.leaf_name[p], bad))
        return out

    def classify_write(self, wpath):
        """a logged write path -> ('elem', array leaf, index term) | ('arrays', [array leaves]) + ('shared', [extra leaves])"""
        fp = []
        rest = None
        for n, e in enumerate(wpath):
            if e[0] == 'f':
                fp.append(e[1])
            else:
                rest = wpath[n:]
                break
        fp = tuple(fp)
        for p in self.arrays:
            if fp == p and rest and rest[0][0] == 'i':
                return ('elem', p, rest[0][1])
            if fp[:len(p)] == p and len(fp) > len(p):
                return ('elem', p, None)        # cannot happen (array leaves have no fields); treated as unknown index
        arrs = [p for p in self.arrays if p[:len(fp)] == fp]
        shared = [p for p in self.extra if p[:len(fp)] == fp or fp[:len(p)] == p]
        return ('bulk', arrs, shared)


def msg_roles(F):
    """field paths of the message structs by public accessor name (None: the accessor computes its result)"""
    from . import view
    return view.field_roles(F)


def get_path(v, path):
    for i in path:
        if not isinstance(v, Ag) or i >= len(v.fields):
            return None
        v = v.fields[i]
    return v


class Row(object):
    __slots__ = ('pair_key', 'cname', 'kind', 'outcome_kind', 'preds', 'outputs', 'next_key', 'code_in', 'code_out',
                 'spec_in', 'spec_out', 'cons_in', 'cons_out', 'events', 'why', 'now_tokens', 'identity', 'ret', 'rename')


class Product(object):
    def __init__(self):
        self.pairs = {}          # key -> (code_state, spec_state, cons)
        self.rows = []
        self.mismatches = []     # (pair_key, cname, text)
        self.site_ok = {}        # construction sites visited on reachable typestates (see _fold_sites)
        self.order = []
        self.init_keys = []


def class_cons(cname, kind, rng, k=0):
    """constraints on the current-input tokens for an input class on channel k"""
    c = {CUR_D1: VS(0, 127), CUR_D2: VS(0, 127)}
    if kind == 'cc':
        c[CUR_STATUS] = VS.one(0xB0 | k)
        c[CUR_D1] = VS(rng[0], rng[1])
    elif kind == 'noncc':
        if rng == 'system':
            c[CUR_STATUS] = VS(0xF0, 0xFF)          # system messages have no channel: seen from every channel k
        else:
            c[CUR_STATUS] = VS.of([t | k for t in (0x80, 0x90, 0xA0, 0xC0, 0xD0, 0xE0)])
    else:
        c = {}
    return c


class StepOutcome(object):
    __slots__ = ('kind', 'why', 'value', 'st', 'new_state', 'interference', 'site')

    def __init__(self, kind, why, value, st, new_state, interference, site=None):
        self.kind, self.why, self.value, self.st, self.new_state, self.interference, self.site = kind, why, value, st, new_state, interference, site


def _holds_at_ctor(I, st, v):
    from . import invariants
    return invariants.holds_at_ctor(I, st, v)


def run_step(F, model, kind, code_state, cons, status=CUR_STATUS, d1=CUR_D1, d2=CUR_D2, k=0, seconds=None):
    """one abstract step of the *outer* scanner seen from channel k -> (interp, [StepOutcome]).
    The elements of the other 15 channels are unconstrained tops; any read or write of them is reported as
    interference (feed / poll); for reset they are new elements."""
    hooks = H.msg_hooks(status, d1, d2)
    I = Interp(F, abstract_methods=hooks, observe=True)
    I.struct_invariant = _holds_at_ctor
    if seconds is not None:
        I.TIME_BUDGET = min(I.TIME_BUDGET, seconds)
    st = I.new_state()
    st.cons.update(cons)
    if kind == 'reset':
        others = model.copies_of(code_state.fields[0])
    else:
        others = model.top_others()
    outer = model.build(code_state, k, others, st.cons)
    st.root().locals['self'] = outer
    selfref = Rf(0, 'self', (), True)
    if kind in ('cc', 'noncc', 'feed'):
        key = model.outer_key('feed')
        st.root().locals['msg'] = Sc(T.T('msg', 'opaque'), H.param('impl ShortMessage', 0))
        outs = I.run(key, [selfref, Rf(0, 'msg', ())], [H.param('impl ShortMessage', 0)], st)
    elif kind == 'poll':
        key = model.outer_key('poll')
        outs = I.run(key, [selfref, H.nt('Channel', C(k))], [], st)
    elif kind == 'reset':
        key = model.outer_key('reset')
        outs = I.run(key, [selfref], [], st)
    else:
        raise ValueError(kind)
    res = []
    for o in outs:
        new_state, interf = None, None
        if o.kind == 'return':
            after = o.st.root().locals['self']
            if not model.arrays_ok(after):
                interf = 'unproven: the per-channel storage is no longer a 16-element array: %r' % (after,)
            else:
                new_state = model.wrap(after, k, o.st.cons)
                if kind != 'reset':
                    interf = _interference(model, k, o, others, after)
        res.append(StepOutcome(o.kind, o.why, o.value, o.st, new_state, interf, o.site))
    return I, res


def _interference(model, k, o, others, after):
    """explicit writes of this call into the state of another channel or into a field shared by all channels;
    reads of another channel's state (its lazily materialised top differs from the untouched original)"""
    written, shared, weak = set(), set(), False

    def touched(p):
        arr = model.get(after, p)
        return set(j for j in range(16) if j != k and arr.elems[j] is not others[p][j])
    for e in o.st.events:
        if e[0] == 'weak-array-write':
            weak = True
        if e[0] != 'w':
            continue
        c = model.classify_write(e[1])
        if c[0] == 'elem':
            idx = vs_of(c[2], o.st.cons) if c[2] is not None else None
            if idx is None or not idx.single():
                weak = True
            elif idx.lo != k:
                written.add(idx.lo)
        else:
            for p in c[1]:
                written |= touched(p)      # a whole array (or a struct containing it) is assigned: compare element-wise
            for p in c[2]:
                if p not in model.bitsets:
                    shared.add(p)
    if written:
        return 'an input for channel %d writes the state of channel(s) %s' % (k, sorted(written)[:4])
    if model.bitsets:
        fb = model.foreign_bits_changed(after, k, o.st.cons)
        if fb:
            return 'an input for channel %d changes the bits of channel(s) %s in the per-channel bit set %s' % (k, fb[0][1][:6], fb[0][0])
    if weak:
        return 'an input for channel %d writes a per-channel element whose index is not determined by the channel' % k
    if shared:
        return 'unproven: an input for channel %d writes field(s) %s shared by all channels' % (
            k, [model.leaf_name[p] for p in sorted(shared)])
    read = sorted(set().union(*[touched(p) for p in model.arrays]))
    if read:
        return 'unproven: an input for channel %d reads the state of channel(s) %s' % (k, read[:4])
    return None


def initial_states(F, model, spec, k=0):
    """[(label, code state, spec state, cons)] from the outer Default / new"""
    res = []
    hit = find_impl(Interp(F), 'core::default::Default', 'default', [model.outer_ty])
    if hit:
        I = Interp(F)
        outs = I.run(hit[0], [], hit[1])
        if len(outs) == 1 and outs[0].kind == 'return' and model.uniform(outs[0].value):
            to = ('app', 'Duration::default', ()) if spec.has_poll else None
            res.append(('default', model.wrap(outs[0].value, k, outs[0].st.cons), spec.init(to), {}))
    newk = model.outer + '::new'
    if newk in F.fns:
        I = Interp(F)
        st = I.new_state()
        if spec.has_poll:
            tok = T.T('timeout', 'opaque')
            outs = I.run(newk, [Sc(tok, {'k': 'adt', 'path': 'core::time::Duration', 'krate': 'core', 'args': []})], [], st)
            init = spec.init(tok)
        else:
            outs = I.run(newk, [], [], st)
            init = spec.init(None)
        if len(outs) == 1 and outs[0].kind == 'return' and model.uniform(outs[0].value):
            res.append(('new', model.wrap(outs[0].value, k, outs[0].st.cons), init, {}))
    return res


def extract_outputs(F, roles, ret, st=None):
    """normalise the return value of feed/poll to a list of message role dicts (or None = malformed); the roles are
    what the public accessors return for the reported value (st: the state of the reporting path)"""
    from . import view
    cons = st.cons if st is not None else {}
    ntok = st.ntok if st is not None else 0

    def one(v):
        p = H.opt_payload(v)
        if p is None:
            return 'bad'
        if p[0] == 'none':
            return None
        m = p[1]
        if not isinstance(m, Ag) or m.path not in (CC14, PNM):
            return 'bad'
        return view.observe(F, m, cons, ntok)
    if isinstance(ret, Ar):
        items = [one(e) for e in ret.elems]
    else:
        items = [one(ret)]
    if any(x == 'bad' for x in items):
        return None
    # a later slot filled while an earlier one is empty is malformed (C14: never a second without a first)
    seen_none = False
    out = []
    for x in items:
        if x is None:
            seen_none = True
        else:
            if seen_none:
                return None
            out.append(x)
    return out


def msg_equal(F, got, want, cons):
    """compare an extracted message with the spec's role dict -> (ok, text)"""
    for role, wt in want.items():
        g = got.get(role)
        if g is None:
            return False, 'role %s not found in the reported message' % role
        if role == 'data_type':
            if not isinstance(g, Ag):
                return False, 'data type is %r' % (g,)
            vn = H.variant_name(F, g)
            if vn != wt:
                return False, 'data type %s, expected %s' % (vn, wt)
            continue
        s = H.scalar_of(g)
        if s is None:
            return False, 'role %s is %r' % (role, g)
        if not H.same(s.term, wt, cons):
            return False, '%s = %s, expected %s' % (role, H.describe(g, cons), T.bits_str(T.bits_of(wt, cons, 16)) if T.bits_of(wt, cons, 16) else T.tstr(wt))
    return True, ''


def walk_tree(tree, preds, cons):
    """leaves of the spec decision tree compatible with the recorded predicates of a code outcome"""
    if tree[0] == 'leaf':
        return [tree]
    _, pred, a, b = tree
    v = vs_of(T.mk_cmp(pred[1], pred[2], pred[3], cons), cons) if pred[0] == 'cmp' else T.BOOLVS
    if v.single():
        return walk_tree(a if v.lo == 1 else b, preds, cons)
    p = T.norm_pred(pred, True, cons)
    if p[0] == 'const':
        return walk_tree(a if (p[1] == p[2]) else b, preds, cons)
    for q in preds:
        if q[0] == p[0] and q[1] == p[1]:
            return walk_tree(a if q[2] == p[2] else b, preds, cons)
    if p[0] == 'lt':
        # the code may have split three ways (`x.cmp(&y)`): decide x < y from what its recorded conditions say about
        # the order of the same two terms
        x, y = p[1]
        om = {'lt', 'eq', 'gt'}
        used = False
        for q in preds:
            sat = None
            if q[0] == 'lt' and q[1] == (x, y):
                sat = {'lt'}
            elif q[0] == 'lt' and q[1] == (y, x):
                sat = {'gt'}
            elif q[0] == 'eq' and q[1] == frozenset([frozenset([('term', x), ('term', y)])]):
                sat = {'eq'}
            if sat is not None:
                used = True
                om &= sat if q[2] else ({'lt', 'eq', 'gt'} - sat)
        if used and om:
            holds = om <= {'lt'}
            fails = not (om & {'lt'})
            if holds or fails:
                return walk_tree(a if (holds == p[2]) else b, preds, cons)
    return walk_tree(a, preds, cons) + walk_tree(b, preds, cons)


def elapsed_vs_timeout(preds):
    """what the recorded branch conditions of a path say about `elapsed(arrival) < timeout`:
    -> (True | False | None, elapsed term, timeout term).  The conditions may be a single comparison in any spelling or
    the arms of a three-way `cmp`."""
    e = t = None
    om = {'lt', 'eq', 'gt'}
    used = False
    for q in preds:
        pair = None
        if q[0] == 'lt':
            pair = q[1]
        elif q[0] == 'eq' and len(q[1]) == 1:
            only = list(list(q[1])[0])
            if len(only) == 2 and all(x[0] == 'term' for x in only):
                pair = (only[0][1], only[1][1])
        if pair is None:
            continue
        el = [x for x in pair if x[0] == 'app' and x[1] == 'elapsed']
        if len(el) != 1:
            continue
        e2 = el[0]
        t2 = pair[1] if pair[0] == e2 else pair[0]
        if e is not None and (e2, t2) != (e, t):
            return None, e, t
        e, t = e2, t2
        if q[0] == 'lt':
            sat = {'lt'} if pair == (e, t) else {'gt'}
        else:
            sat = {'eq'}
        used = True
        om &= sat if q[2] else ({'lt', 'eq', 'gt'} - sat)
    if not used or not om:
        return None, e, t
    if om <= {'lt'}:
        return True, e, t
    if not (om & {'lt'}):
        return False, e, t
    return None, e, t


EXPLORE_SECONDS = 40.0      # CPU-time budget of one channel's exploration; exceeding it fails closed


def explore(F, model, spec, k=0, max_pairs=200):
    """product of the outer scanner, seen from channel k, with the reference automaton"""
    roles = msg_roles(F)
    P = Product()
    P.roles = roles
    P.channel = k
    work = []
    for label, cs, ss, cons in initial_states(F, model, spec, k):
        c2, s2, cons2, key, _m = canonical_pair(cs, ss, cons)
        if key not in P.pairs:
            P.pairs[key] = (c2, s2, cons2, label)
            P.order.append(key)
            work.append(key)
        P.init_keys.append((label, key))
    P.steps = 0
    P.fns = set()
    if not work:
        P.mismatches.append((None, 'init', 'no initial state: Default / new of the scanner could not be interpreted, or its 16 elements differ'))
    ch = C(k)
    import time as _time
    t_end = _time.process_time() + EXPLORE_SECONDS
    P.exhausted = False
    while work:
        if _time.process_time() > t_end:
            P.exhausted = True
            P.mismatches.append((work[0], 'init', 'unproven: the exploration of channel %d did not finish within %.0f s (%d abstract pairs so far)' % (
                k, EXPLORE_SECONDS, len(P.pairs))))
            break
        key = work.pop(0)
        cs, ss, cons, _ = P.pairs[key]
        for cname, kind, rng in spec.classes:
            if _time.process_time() > t_end:
                break
            if kind == 'poll' and not model.outer_key('poll'):
                P.mismatches.append((key, cname, 'scanner has no poll method'))
                continue
            if kind == 'reset' and not model.outer_key('reset'):
                P.mismatches.append((key, cname, 'scanner has no reset method'))
                continue
            c0 = dict(cons)
            c0.update(class_cons(cname, kind, rng, k))
            I, outs = run_step(F, model, kind, cs, c0, k=k, seconds=max(1.0, t_end - _time.process_time()))
            P.steps += I.total_steps
            P.fns |= I.fns_entered
            _fold_sites(P, I)
            for o in outs:
                row = Row()
                row.pair_key, row.cname, row.kind = key, cname, kind
                row.outcome_kind, row.why = o.kind, o.why
                row.preds = list(o.st.preds)
                row.code_in, row.spec_in, row.cons_in = cs, ss, c0
                row.events = list(o.st.events)
                row.now_tokens = [e[1] for e in o.st.events if e[0] == 'now']
                row.cons_out = o.st.cons
                row.ret = o.value
                row.next_key = None
                row.outputs = None
                row.code_out = None
                row.spec_out = None
                row.identity = None
                row.rename = None
                P.rows.append(row)
                if o.kind != 'return':
                    P.mismatches.append((key, cname, '%s outcome: %s' % (o.kind, o.why)))
                    continue
                if o.st.notes:
                    P.mismatches.append((key, cname, 'unmodelled callee on the path: %s' % o.st.notes[:2]))
                    continue
                if o.interference:
                    P.mismatches.append((key, cname, o.interference, 'interference'))
                new_code = o.new_state
                row.code_out = new_code
                row.identity = val_key(new_code) == val_key(cs)
                if kind == 'poll':
                    cur = Cur(ch, None, None, None)
                elif kind == 'reset':
                    cur = Cur(None, None, None, None)
                else:
                    cur = Cur(ch, CUR_D1, CUR_D2, row.now_tokens[0] if len(row.now_tokens) == 1 else None)
                tree = spec.step(ss, cname, kind, cur)
                leaves = walk_tree(tree, row.preds, o.st.cons)
                outputs = extract_outputs(F, roles, o.value, o.st) if kind != 'reset' else []
                row.outputs = outputs
                if outputs is None:
                    P.mismatches.append((key, cname, 'malformed result %r' % (o.value,)))
                    continue
                nxt_spec = None
                bad = False
                for lf in leaves:
                    _, want, nspec = lf
                    if len(want) != len(outputs):
                        P.mismatches.append((key, cname, 'reports %d message(s) %r, expected %d %s' % (
                            len(outputs), o.value, len(want), '(under %s)' % [T.pred_str(p) for p in row.preds] if row.preds else '')))
                        bad = True
                        break
                    for g, w in zip(outputs, want):
                        ok, txt = msg_equal(F, g, w, o.st.cons)
                        if not ok:
                            P.mismatches.append((key, cname, 'reported message differs: %s (result %r)' % (txt, o.value)))
                            bad = True
                            break
                    if bad:
                        break
                    if nxt_spec is not None and repr(nxt_spec) != repr(nspec):
                        P.mismatches.append((key, cname, 'the code does not distinguish a case the property distinguishes (successor states %r / %r)' % (nxt_spec, nspec)))
                        bad = True
                        break
                    nxt_spec = nspec
                if bad or nxt_spec is None:
                    continue
                if _spec_needs_now(nxt_spec):
                    P.mismatches.append((key, cname, 'a pending value is stored without taking a time stamp in this call'))
                    continue
                row.spec_out = nxt_spec
                # rename the current-input tokens so that they become state tokens of the next pair
                c2, s2, cons2, nkey, m = canonical_pair(new_code, nxt_spec, o.st.cons)
                row.next_key = nkey
                row.rename = m
                if nkey not in P.pairs:
                    if len(P.pairs) >= max_pairs:
                        P.mismatches.append((key, cname, 'state space does not close within %d abstract pairs' % max_pairs))
                        continue
                    P.pairs[nkey] = (c2, s2, cons2, None)
                    P.order.append(nkey)
                    work.append(nkey)
    return P


def _fold_sites(P, I):
    """construction sites seen while exploring: site -> [holds on every visit (True / False / None), example, visits]"""
    from . import invariants
    rank = {True: 0, None: 1, False: 2}
    for site, lst in I.obs_ctor.items():
        for (path, variant, fields, extra, stack) in lst:
            ok, txt = invariants.ctor_obs_verdict(path, fields, extra)
            cur = P.site_ok.get(site)
            if cur is None:
                P.site_ok[site] = [ok, txt, 1]
            else:
                cur[2] += 1
                if rank[ok] > rank[cur[0]]:
                    cur[0], cur[1] = ok, txt


def _spec_needs_now(s):
    return isinstance(s, tuple) and any(x is None for x in s[-1:]) and s and s[0] in ('P6', 'P38')


_product_cache = {}


def _explore_channel(args):
    cfg, spec_cls, public_name, k = args
    from . import facts
    F = facts.load(cfg)
    model = ScannerModel(F, public_name)
    P = explore(F, model, spec_cls(), k)
    return k, P


def product_for(F, spec_cls, public_name):
    """(model, spec, product on channel 0, {k: product on channel k}) - all 16 channels, cached per tree"""
    key = (F.cfg, F.tree, public_name)
    if key in _product_cache:
        return _product_cache[key]
    import hashlib
    import os
    import pickle
    from . import facts
    here = os.path.dirname(os.path.abspath(__file__))
    h = hashlib.sha256()
    for root, dirs, names in os.walk(here):
        dirs.sort()
        for n in sorted(names):
            if n.endswith('.py'):
                h.update(open(os.path.join(root, n), 'rb').read())
    cp = os.path.join(facts.CACHE, 'facts', F.tree, '%s.product.%s.%s.pkl' % (F.cfg, public_name, h.hexdigest()[:12]))
    model = ScannerModel(F, public_name)
    spec = spec_cls()
    allp = None
    if os.path.exists(cp):
        try:
            allp = pickle.load(open(cp, 'rb'))
        except Exception:
            allp = None
    if allp is None:
        allp = {}
        k0, P0 = _explore_channel((F.cfg, spec_cls, public_name, 0))
        allp[0] = P0
        jobs = [(F.cfg, spec_cls, public_name, k) for k in range(1, 16)]
        if getattr(P0, 'exhausted', False):
            jobs = []          # pathological state space: do not repeat the failure fifteen times
        try:
            import multiprocessing as mp
            with mp.Pool(min(8, os.cpu_count() or 1)) as pool:
                for k, P in pool.map(_explore_channel, jobs):
                    allp[k] = P
        except Exception:
            allp = {0: P0}
            for j in jobs:
                k, P = _explore_channel(j)
                allp[k] = P
        try:
            pickle.dump(allp, open(cp + '.tmp', 'wb'))
            os.rename(cp + '.tmp', cp)
        except Exception:
            pass
    P0 = allp[0]
    for k in range(1, 16):
        if k not in allp:
            # channel 0 exhausted its budget (reported there): the other channels are not explored; they get an empty
            # product so that no per-channel clause mistakes channel 0's rows for theirs
            stub = Product()
            stub.roles, stub.channel, stub.steps, stub.fns, stub.exhausted = P0.roles, k, 0, set(), True
            stub.mismatches.append((None, 'init', 'unproven: not explored (the exploration of channel 0 did not finish)'))
            allp[k] = stub
    res = (model, spec, allp[0], allp)
    _product_cache[key] = res
    return res


def spec_shape(ss):
    """stable label of a spec state: tag, presence of optional slots, constant flags"""
    def one(x):
        if x is None:
            return '-'
        if isinstance(x, str):
            return x
        if isinstance(x, tuple) and x and x[0] == 'c':
            return str(x[1])
        if isinstance(x, tuple) and x and x[0] == 'app':
            return x[1]
        return '_'
    return '(' + ','.join(one(x) for x in ss) + ')'


def typestate_label(F, v):
    """short human-readable shape of a state value"""
    if isinstance(v, Ag):
        a = F.adts.get(v.path)
        name = a['variants'][v.variant]['name'] if a and a['kind'] == 'enum' else (v.path.split('::')[-1] if v.path not in ('()',) else '')
        if v.path == 'core::option::Option':
            return 'Some(%s)' % typestate_label(F, v.fields[0]) if v.variant == 1 else 'None'
        inner = ','.join(typestate_label(F, f) for f in v.fields)
        return '%s(%s)' % (name, inner) if inner else name
    if isinstance(v, Sc):
        return T.tstr(v.term)
    return repr(v)
