"""Call resolution for the abstract interpreter: local bodies (after type substitution), trait
dispatch through the exported impl table, and the intrinsic models of `core`/`std` items.
Each model is a line or two of semantics; anything not listed returns a typed top and is reported
as an unmodelled callee (obligations depending on it become *unproven*)."""
from . import terms as T
from .terms import VS, C, vs_of, mk_cast, mk_cmp, mk_not, mk_op
from .interp import (Sc, Ag, Ar, Rf, Un, Clo, It, Lost, unit, subst_ty, scalar_name, ty_is_abstract, BOOL, INT,
                     OPAQUE_ADTS, val_eq)
from .mirpp import ty_str

OPT = 'core::option::Option'
RES = 'core::result::Result'
CF = 'core::ops::control_flow::ControlFlow'
ORD = 'core::cmp::Ordering'


def some(v):
    return Ag(OPT, 1, [v])


def none():
    return Ag(OPT, 0, [])


# ------------------------------------------------------------------ type unification (impl lookup)

def unify(pat, ty, b):
    k = pat['k']
    if k == 'param':
        i = pat['index']
        if i in b:
            return ty_str(b[i]) == ty_str(ty)
        b[i] = ty
        return True
    if k in ('lifetime',):
        return True
    if k != ty['k']:
        return False
    if k in ('int', 'float'):
        return pat['name'] == ty['name']
    if k in ('bool', 'char', 'str', 'never'):
        return True
    if k == 'adt':
        if pat['path'] != ty['path'] or len(pat['args']) != len(ty['args']):
            return False
        return all(unify(x, y, b) for x, y in zip(pat['args'], ty['args']))
    if k == 'tuple':
        return len(pat['tys']) == len(ty['tys']) and all(unify(x, y, b) for x, y in zip(pat['tys'], ty['tys']))
    if k in ('ref', 'ptr'):
        return pat['mut'] == ty['mut'] and unify(pat['ty'], ty['ty'], b)
    if k == 'array':
        return (pat['len'] is None or pat['len'] == ty['len']) and unify(pat['ty'], ty['ty'], b)
    if k == 'slice':
        return unify(pat['ty'], ty['ty'], b)
    return ty_str(pat) == ty_str(ty)


def find_impl(I, trait, name, gargs):
    """-> (fn key, subst for that body) or None"""
    for im, key in I.F.impl_methods.get((trait, name), []):
        targs = im['trait_args']
        if len(gargs) < len(targs):
            continue
        b = {}
        if all(unify(p, a, b) for p, a in zip(targs, gargs[:len(targs)])):
            n_impl = len(im['generics'])
            sub = [b.get(i) for i in range(n_impl)] + list(gargs[len(targs):])
            return key, sub
    return None


def is_derived(I, trait, ty):
    if ty['k'] != 'adt':
        return False
    for im in I.F.impls:
        if im.get('trait') == trait and im['self']['k'] == 'adt' and im['self']['path'] == ty['path']:
            return im['automatically_derived']
    return False


# ------------------------------------------------------------------ helpers

def split_arg(I, st, fr, t, i, args):
    """the i-th argument is an abstract enum: re-execute the call once per variant"""
    a = args[i]
    target = None
    if isinstance(a, Un):
        target = ('place', t['args'][i])
        un = a
    elif isinstance(a, Rf):
        inner = I.deref(st, a)
        if isinstance(inner, Un):
            target = ('ref', a)
            un = inner
    if target is None:
        return None
    alts = I.enum_variants(un.ty)
    if alts is None:
        return None
    outs = []
    for vi, name, ftys in alts:
        s2 = st.clone()
        f2 = s2.top()
        val = Ag(un.ty['path'], vi, [I.top_of(s2, ft, name.lower()) for ft in ftys])
        if target[0] == 'place':
            op = target[1]
            if op['k'] not in ('copy', 'move'):
                return None
            I.write_place(s2, f2, op['place'], val)
        else:
            I.store_through(s2, target[1], val)
        outs.append(s2)
    return outs


def is_good(v):
    return (v.path == OPT and v.variant == 1) or (v.path == RES and v.variant == 0)


def compare(I, st, a, b, op, depth=0):
    """abstract comparison of two values -> term or None"""
    a, b = I.deref_all(st, a), I.deref_all(st, b)
    if isinstance(a, Sc) and isinstance(b, Sc):
        return mk_cmp(op, a.term, b.term, st.cons)
    if isinstance(a, Ag) and isinstance(b, Ag) and a.path == b.path:
        if op in ('eq', 'ne'):
            r = I.struct_eq(st, a, b)
            if r is None:
                return None
            return r if op == 'eq' else mk_not(r, st.cons)
        if len(a.fields) == 1 and len(b.fields) == 1 and a.variant == b.variant == 0 and I.adt(a.path) is not None \
                and I.adt(a.path)['kind'] == 'struct':
            return compare(I, st, a.fields[0], b.fields[0], op, depth + 1)
        if not a.fields and not b.fields:
            return C(int(T._CMP[op](I.discr_of(a), I.discr_of(b))))
    return None


def default_value(I, st, ty):
    """Default::default() for types whose default needs no call; None otherwise"""
    n = scalar_name(ty)
    if n is not None:
        return Sc(C(0), ty)
    k = ty['k']
    if k == 'adt':
        if ty['path'] == OPT:
            return none()
        if ty['path'] == 'core::time::Duration':
            return Sc(('app', 'Duration::default', ()), ty)
    if k == 'tuple':
        vs = [default_value(I, st, x) for x in ty['tys']]
        if all(v is not None for v in vs):
            return Ag('()', 0, vs)
    if k == 'array' and ty['len'] is not None:
        e = default_value(I, st, ty['ty'])
        if e is not None:
            return Ar([e] * ty['len'])
    return None


# ------------------------------------------------------------------ dispatch

def dispatch(I, st, fr, t, c, args, gargs, site):
    path, trait, name = c['path'], c.get('trait'), c['name']
    if path.startswith('core::fmt::') or path.startswith('core::hash::') or path.startswith('std::fmt::'):
        I.havoc_args(st, [a for a in args[1:]])
        return I.done(st, fr, t, Un(I.ret_ty(fr, t), 'fmt/hash'))
    if trait:
        return trait_call(I, st, fr, t, c, args, gargs, site)
    if c['local']:
        if c.get('unsafe') and I.observe:
            pass
        return I.invoke_local(st, fr, t, path, args, gargs)
    return intrinsic(I, st, fr, t, c, args, gargs, site)


def trait_call(I, st, fr, t, c, args, gargs, site):
    trait, name, path = c['trait'], c['name'], c['path']
    self_ty = gargs[0]
    done = lambda v: I.done(st, fr, t, v)

    # ---- conversions
    if trait == 'core::convert::Into' and name == 'into':
        return conv(I, st, fr, t, 'core::convert::From', 'from', gargs[1], gargs[0], args)
    if trait == 'core::convert::TryInto' and name == 'try_into':
        return conv(I, st, fr, t, 'core::convert::TryFrom', 'try_from', gargs[1], gargs[0], args)
    if trait in ('core::convert::From', 'core::convert::TryFrom') and name in ('from', 'try_from'):
        return conv(I, st, fr, t, trait, name, gargs[0], gargs[1], args)

    # ---- comparisons
    if trait in ('core::cmp::PartialEq', 'core::cmp::PartialOrd') and name in T.NEG:
        a, b = I.deref_all(st, args[0]), I.deref_all(st, args[1])
        sty = self_ty
        while sty['k'] == 'ref':
            sty = sty['ty']
        structural_ok = True
        if sty['k'] == 'adt' and I.adt(sty['path']) is not None:
            structural_ok = is_derived(I, trait, sty)
        if structural_ok:
            r = compare(I, st, a, b, name)
            if r is not None:
                return done(Sc(r, BOOL))
        if sty['k'] == 'adt' and sty['path'] in OPAQUE_ADTS and isinstance(a, Sc) and isinstance(b, Sc):
            return done(Sc(mk_cmp(name, a.term, b.term, st.cons), BOOL))
        if not structural_ok:
            hit = find_impl(I, trait, name, gargs)
            if hit:
                return I.invoke_local(st, fr, t, hit[0], args, hit[1])
        if isinstance(a, Un) or isinstance(b, Un):
            for i in (0, 1):
                r = split_arg(I, st, fr, t, i, args)
                if r is not None:
                    return r
        return None

    if trait == 'core::default::Default' and name == 'default':
        v = default_value(I, st, self_ty)
        if v is not None:
            return done(v)
        if self_ty['k'] == 'array' and self_ty['len'] is not None:
            ety = self_ty['ty']
            hit = find_impl(I, trait, name, [ety])
            if hit:
                n = self_ty['len']

                def on_ret(I2, st2, val, n=n, t=t):
                    caller = st2.top()
                    return I2.done(st2, caller, t, Ar([val] * n))
                return I.invoke_local(st, fr, t, hit[0], [], hit[1], on_ret=on_ret)
        hit = find_impl(I, trait, name, gargs)
        if hit:
            return I.invoke_local(st, fr, t, hit[0], args, hit[1])
        return None

    if trait == 'core::clone::Clone' and name == 'clone':
        hit = find_impl(I, trait, name, gargs)
        if hit and not is_derived(I, trait, self_ty):
            return I.invoke_local(st, fr, t, hit[0], args, hit[1])
        return done(I.deref(st, args[0]))

    if trait == 'core::ops::try_trait::Try' and name == 'branch':
        v = args[0]
        if isinstance(v, Un):
            return split_arg(I, st, fr, t, 0, args)
        if isinstance(v, Ag) and v.path in (OPT, RES):
            if is_good(v):
                return done(Ag(CF, 0, [v.fields[0]]))
            return done(Ag(CF, 1, [Ag(v.path, v.variant, v.fields)]))
        return None
    if trait == 'core::ops::try_trait::FromResidual' and name == 'from_residual':
        v = args[0]
        if isinstance(v, Ag) and v.path == OPT:
            return done(none())
        if isinstance(v, Ag) and v.path == RES:
            return done(Ag(RES, 1, [v.fields[0]]))     # From<E> for E (identity) on the error
        return None

    if trait == 'core::iter::traits::collect::IntoIterator' and name == 'into_iter':
        v = args[0]
        if isinstance(v, It):
            return done(v)
        if isinstance(v, Rf):
            arr = I.deref(st, v)
            if isinstance(arr, Ar):
                return done(It(v, 0, len(arr.elems)))
        return None
    if trait == 'core::iter::traits::iterator::Iterator' and name == 'next':
        slot = args[0]
        it = I.deref(st, slot)
        if isinstance(it, It) and isinstance(slot, Rf):
            if it.pos < it.n:
                I.store_through(st, slot, It(it.rf, it.pos + 1, it.n))
                return done(some(Rf(it.rf.fid, it.rf.local, tuple(it.rf.path) + (('i', C(it.pos)),), it.rf.mut)))
            return done(none())
        return None
    if trait == 'core::iter::traits::iterator::Iterator' and name == 'for_each':
        it = I.deref_all(st, args[0])
        if isinstance(it, It):
            return for_each(I, st, fr, t, it, args[1], it.pos)
        return None

    if trait == 'core::str::traits::FromStr' and name == 'from_str':
        hit = find_impl(I, trait, name, gargs)
        if hit:
            return I.invoke_local(st, fr, t, hit[0], args, hit[1])
        st.events.append(('from_str', ty_str(self_ty)))
        return done(Un(I.ret_ty(fr, t), 'parsed'))

    # ---- abstract receiver
    if ty_is_abstract(self_ty):
        h = I.abstract_methods.get((trait, name))
        if h is not None:
            r = h(I, st, fr, t, args, gargs)
            if isinstance(r, list):
                return r
            return done(r)
        if c.get('has_default') and path in I.F.fns:
            return I.invoke_local(st, fr, t, path, args, gargs)
        st.events.append(('abstract-call', trait, name))
        I.havoc_args(st, args)
        return done(I.top_of(st, I.ret_ty(fr, t), name))

    # ---- concrete receiver: impl table, then the trait's default body
    hit = find_impl(I, trait, name, gargs)
    if hit:
        return I.invoke_local(st, fr, t, hit[0], args, hit[1])
    if c.get('has_default') and path in I.F.fns:
        return I.invoke_local(st, fr, t, path, args, gargs)
    return None


def for_each(I, st, fr, t, it, clo, k):
    if k >= it.n:
        return I.done(st, fr, t, unit())
    elem = Rf(it.rf.fid, it.rf.local, tuple(it.rf.path) + (('i', C(k)),), it.rf.mut)

    def on_ret(I2, st2, val, k=k):
        return for_each(I2, st2, st2.top(), t, it, clo, k + 1)
    return I.call_closure(st, clo, [elem], on_ret)


def conv(I, st, fr, t, trait, name, to_ty, from_ty, args):
    done = lambda v: I.done(st, fr, t, v)
    hit = find_impl(I, trait, name, [to_ty, from_ty])
    if hit:
        return I.invoke_local(st, fr, t, hit[0], args, hit[1])
    a = args[0]
    tn, fn_ = scalar_name(to_ty), scalar_name(from_ty)
    if trait == 'core::convert::From':
        if ty_str(to_ty) == ty_str(from_ty):
            return done(a)                                         # impl<T> From<T> for T
        if tn is not None and fn_ is not None and isinstance(a, Sc) and tn != 'bool':
            # core's primitive From impls exist only where lossless; the cast term keeps us honest
            return done(Sc(mk_cast(tn, a.term, st.cons), to_ty))
    if trait == 'core::convert::TryFrom':
        # blanket impl<T, U: Into<T>> TryFrom<U> for T  (infallible)
        hit = find_impl(I, 'core::convert::From', 'from', [to_ty, from_ty])
        if hit:
            def on_ret(I2, st2, val, t=t):
                return I2.done(st2, st2.top(), t, Ag(RES, 0, [val]))
            return I.invoke_local(st, fr, t, hit[0], args, hit[1], on_ret=on_ret)
        if ty_str(to_ty) == ty_str(from_ty):
            return done(Ag(RES, 0, [a]))
        if tn is not None and fn_ is not None and isinstance(a, Sc) and tn != 'bool' and fn_ != 'bool':
            # core's checked primitive conversions: Ok(x as T) iff x in range(T)
            rng = T.ty_vs(tn)
            v = vs_of(a.term, st.cons)
            outs = []
            inside = v.meet(rng)
            outside = v.minus(rng)
            if not inside.empty():
                s2 = st.clone() if not outside.empty() else st
                if T.refine(a.term, inside, s2.cons):
                    f2 = s2.top()
                    outs.extend(I.done(s2, f2, t, Ag(RES, 0, [Sc(mk_cast(tn, a.term, s2.cons), to_ty)])))
            if not outside.empty():
                if T.refine(a.term, outside, st.cons):
                    outs.extend(I.done(st, fr, t, Ag(RES, 1, [Un(None, 'TryFromIntError')])))
            return outs
    if ty_is_abstract(to_ty) or ty_is_abstract(from_ty):
        st.events.append(('abstract-conv', ty_str(from_ty), ty_str(to_ty)))
        return done(I.top_of(st, I.ret_ty(fr, t), 'conv'))
    return None


def intrinsic(I, st, fr, t, c, args, gargs, site):
    path = c['path']
    done = lambda v: I.done(st, fr, t, v)
    last = c['name']
    # ---- Option / Result
    if path.startswith('core::option::Option::<T>::') or path.startswith('core::result::Result::<T, E>::'):
        v = args[0]
        if isinstance(v, Rf):
            v = I.deref(st, v)
        if isinstance(v, Un):
            return split_arg(I, st, fr, t, 0, args)
        if not isinstance(v, Ag):
            return None
        good = is_good(v)
        isopt = v.path == OPT
        if last in ('expect', 'unwrap'):
            if good:
                return done(v.fields[0])
            I.finish(st, 'panic', None, site, last + ' on ' + ('None' if isopt else 'Err'))
            return []
        if last in ('is_some', 'is_ok'):
            return done(Sc(C(int(good)), BOOL))
        if last in ('is_none', 'is_err'):
            return done(Sc(C(int(not good)), BOOL))
        if last == 'ok' and not isopt:
            return done(some(v.fields[0]) if good else none())
        if last == 'err' and not isopt:
            return done(none() if good else some(v.fields[0]))
        if last == 'ok_or' and isopt:
            return done(Ag(RES, 0, [v.fields[0]]) if good else Ag(RES, 1, [args[1]]))
        if last == 'unwrap_or':
            return done(v.fields[0] if good else args[1])
        if last in ('as_ref', 'as_mut', 'copied', 'cloned'):
            if last in ('copied', 'cloned') and good:
                return done(some(I.deref(st, v.fields[0])))
            if last in ('as_ref', 'as_mut') and good and isinstance(args[0], Rf):
                r = args[0]
                return done(some(Rf(r.fid, r.local, tuple(r.path) + (('f', 0, 1 if isopt else 0),), r.mut)))
            if not good and isopt:
                return done(none())
            return None
        if last == 'map_err' and not isopt:
            if good:
                return done(v)

            def on_ret(I2, st2, val, t=t):
                return I2.done(st2, st2.top(), t, Ag(RES, 1, [val]))
            return I.call_closure(st, args[1], [v.fields[0]], on_ret)
        if last == 'map':
            if not good:
                return done(v if not isopt else none())

            def on_ret(I2, st2, val, t=t, p=v.path, var=v.variant):
                return I2.done(st2, st2.top(), t, Ag(p, var, [val]))
            return I.call_closure(st, args[1], [v.fields[0]], on_ret)
        if last == 'and_then':
            if not good:
                return done(v if not isopt else none())

            def on_ret(I2, st2, val, t=t):
                return I2.done(st2, st2.top(), t, val)
            return I.call_closure(st, args[1], [v.fields[0]], on_ret)
        if last in ('unwrap_or_else', 'ok_or_else'):
            if good:
                return done(v.fields[0] if last == 'unwrap_or_else' else Ag(RES, 0, [v.fields[0]]))

            def on_ret(I2, st2, val, t=t, last=last):
                return I2.done(st2, st2.top(), t, val if last == 'unwrap_or_else' else Ag(RES, 1, [val]))
            return I.call_closure(st, args[1], [] if isopt else [v.fields[0]], on_ret)
        if last == 'filter' and isopt:
            if not good:
                return done(none())
            return None
        return None
    # ---- slices / arrays
    if path in ('core::slice::<impl [T]>::iter_mut', 'core::slice::<impl [T]>::iter'):
        v = args[0]
        if isinstance(v, Rf):
            arr = I.deref(st, v)
            if isinstance(arr, Ar):
                return done(It(v, 0, len(arr.elems)))
        return None
    if path == 'core::slice::<impl [T]>::len':
        arr = I.deref_all(st, args[0])
        if isinstance(arr, Ar):
            return done(Sc(C(len(arr.elems)), INT('usize')))
        return None
    # ---- time
    if path == 'std::time::Instant::now':
        tok = st.fresh('now', 'opaque')
        st.events.append(('now', tok))
        return done(Sc(tok, I.ret_ty(fr, t)))
    if path == 'std::time::Instant::elapsed':
        a = I.deref_all(st, args[0])
        if isinstance(a, Sc):
            st.events.append(('elapsed', a.term))
            return done(Sc(('app', 'elapsed', (a.term,)), I.ret_ty(fr, t)))
        return None
    if path == 'core::intrinsics::discriminant_value':
        v = I.deref_all(st, args[0])
        if isinstance(v, Ag):
            return done(Sc(C(I.discr_of(v)), INT('isize')))
        if isinstance(v, Un):
            return split_arg(I, st, fr, t, 0, args)
        return None
    if path in ('core::mem::replace',):
        if isinstance(args[0], Rf):
            old = I.deref(st, args[0])
            I.store_through(st, args[0], args[1])
            return done(old)
        return None
    if path in ('core::mem::take',):
        return None
    if path == 'core::convert::identity':
        return done(args[0])
    if path.startswith('core::num::<impl ') and last in ('wrapping_add', 'wrapping_sub', 'wrapping_mul') and len(args) == 2 \
            and isinstance(args[0], Sc) and isinstance(args[1], Sc):
        n = scalar_name(args[0].ty)
        op = {'wrapping_add': 'Add', 'wrapping_sub': 'Sub', 'wrapping_mul': 'Mul'}[last]
        return done(Sc(mk_op(op, args[0].term, args[1].term, n, st.cons), args[0].ty))
    if path.startswith('core::num::<impl ') and last in ('checked_add', 'checked_sub') and len(args) == 2 \
            and isinstance(args[0], Sc) and isinstance(args[1], Sc):
        n = scalar_name(args[0].ty)
        op = {'checked_add': 'Add', 'checked_sub': 'Sub'}[last]
        exact = mk_op(op, args[0].term, args[1].term, None, st.cons)
        ve = vs_of(exact, st.cons)
        rng = T.ty_vs(n)
        if ve.subset(rng):
            return done(some(Sc(exact, args[0].ty)))
        if ve.meet(rng).empty():
            return done(none())
        return None
    return None
