"""E0 front end: run the fact-extractor driver on /repo per feature configuration, cache by content.

Every check calls `load(cfg)`; the cache key is a hash of /repo's *current* sources, manifest, lock
file, the driver binary and the flags, so an edited tree is always re-extracted.  The crate is
compiled from a snapshot of the files that were hashed (so hash and facts always agree).
"""
import fcntl
import hashlib
import json
import os
import shutil
import subprocess
import sys
import time
from concurrent.futures import ThreadPoolExecutor

VERIF = os.path.dirname(os.path.dirname(os.path.abspath(__file__)))
REPO = os.environ.get('HMSA_REPO', '/repo')
CACHE = os.path.join(VERIF, '.cache')
DRIVER = os.path.join(VERIF, 'driver', 'target', 'release', 'hmsa-driver')

CONFIGS = {
    'K1': [],
    'K2': ['--no-default-features'],
    'K3': ['--features', 'serde,serde_repr'],
    'K4': ['--no-default-features', '--features', 'serde,serde_repr'],
    # the same crate as a release profile sees it: `debug_assert!` and `cfg!(debug_assertions)` code is gone
    'K1r': [],
    'K2r': ['--no-default-features'],
}
CONFIG_DESC = {
    'K1': 'default features (std)',
    'K2': '--no-default-features (no_std)',
    'K3': '--features serde,serde_repr (std)',
    'K4': '--no-default-features --features serde,serde_repr',
    'K1r': 'default features, debug assertions off (release profile)',
    'K2r': '--no-default-features, debug assertions off (release profile)',
}
RUSTFLAGS = '-Zmir-opt-level=0'
EXTRA_RUSTFLAGS = {'K1r': ' -Cdebug-assertions=off', 'K2r': ' -Cdebug-assertions=off'}
FORMAT = '3'


class ExtractionError(Exception):
    def __init__(self, cfg, msg, diag=None):
        Exception.__init__(self, '%s: %s' % (cfg, msg))
        self.cfg, self.msg, self.diag = cfg, msg, diag or []


def _snapshot_files():
    files = {}
    for rel in ('Cargo.toml', 'Cargo.lock', 'README.md'):
        p = os.path.join(REPO, rel)
        if os.path.exists(p):
            files[rel] = open(p, 'rb').read()
    for root, dirs, names in os.walk(os.path.join(REPO, 'src')):
        dirs.sort()
        for n in sorted(names):
            p = os.path.join(root, n)
            files[os.path.relpath(p, REPO)] = open(p, 'rb').read()
    return files


def tree_hash(files=None):
    files = files if files is not None else _snapshot_files()
    h = hashlib.sha256()
    for rel in sorted(files):
        h.update(rel.encode() + b'\0' + hashlib.sha256(files[rel]).digest())
    h.update(RUSTFLAGS.encode() + FORMAT.encode())
    if os.path.exists(DRIVER):
        h.update(hashlib.sha256(open(DRIVER, 'rb').read()).digest())
    return h.hexdigest()[:24], files


def _sysroot():
    return subprocess.check_output(['rustc', '+nightly', '--print', 'sysroot'], text=True).strip()


def ensure_driver():
    if os.path.exists(DRIVER):
        return
    env = dict(os.environ, CARGO_NET_OFFLINE='true')
    subprocess.check_call(['cargo', '+nightly', 'build', '--release', '--offline'],
                          cwd=os.path.join(VERIF, 'driver'), env=env,
                          stdout=subprocess.DEVNULL, stderr=subprocess.DEVNULL)


def _extract(cfg, snap, outdir, sysroot):
    out = os.path.join(outdir, cfg + '.json')
    diag_out = os.path.join(outdir, cfg + '.diag.json')
    tdir = os.path.join(CACHE, 'target-' + cfg)
    fp = os.path.join(tdir, 'debug', '.fingerprint')
    if os.path.isdir(fp):
        for n in os.listdir(fp):
            if n.startswith('helgoboss-midi-'):
                shutil.rmtree(os.path.join(fp, n), ignore_errors=True)
    env = dict(os.environ)
    env.update({
        'CARGO_NET_OFFLINE': 'true',
        'RUSTC_WORKSPACE_WRAPPER': DRIVER,
        'LD_LIBRARY_PATH': sysroot + '/lib' + (':' + env['LD_LIBRARY_PATH'] if env.get('LD_LIBRARY_PATH') else ''),
        'RUSTFLAGS': RUSTFLAGS + EXTRA_RUSTFLAGS.get(cfg, ''),
        'CARGO_TARGET_DIR': tdir,
        'HMSA_FACTS_OUT': out,
    })
    for k in ('RUSTC_WRAPPER', 'CARGO_ENCODED_RUSTFLAGS', 'CARGO_BUILD_RUSTFLAGS'):
        env.pop(k, None)
    cmd = ['cargo', '+nightly', 'check', '--offline', '--lib', '--message-format=json'] + CONFIGS[cfg]
    p = subprocess.run(cmd, cwd=snap, env=env, stdout=subprocess.PIPE, stderr=subprocess.PIPE, text=True)
    diags = []
    for line in p.stdout.splitlines():
        try:
            m = json.loads(line)
        except ValueError:
            continue
        if m.get('reason') == 'compiler-message' and 'helgoboss' in m.get('package_id', ''):
            d = m['message']
            diags.append({
                'level': d.get('level'),
                'code': (d.get('code') or {}).get('code'),
                'message': d.get('message'),
                'spans': [{'file': s['file_name'], 'line': s['line_start'], 'text': (s.get('text') or [{}])[0].get('text', '').strip()}
                          for s in d.get('spans', []) if s.get('is_primary')],
                'expansion': [_expn(s) for s in d.get('spans', []) if s.get('is_primary')],
            })
    if p.returncode != 0 or not os.path.exists(out):
        errs = [d for d in diags if d['level'] == 'error']
        json.dump({'ok': False, 'diags': diags, 'stderr': p.stderr[-4000:]}, open(diag_out, 'w'))
        raise ExtractionError(cfg, 'crate does not build in configuration %s (%s): %s' % (
            cfg, CONFIG_DESC[cfg], '; '.join('%s %s' % (d['code'], d['message']) for d in errs[:3]) or p.stderr[-600:]), diags)
    json.dump({'ok': True, 'diags': diags}, open(diag_out, 'w'))
    return out


def _expn(span):
    # outermost user-code location of a diagnostic inside a macro expansion
    s = span
    while s.get('expansion'):
        s = s['expansion']['span']
    return {'file': s['file_name'], 'line': s['line_start']}


def ensure(cfgs):
    """Make sure fact files for `cfgs` exist for the current tree; returns (hash, dir, errors)."""
    ensure_driver()
    os.makedirs(CACHE, exist_ok=True)
    with open(os.path.join(CACHE, 'lock'), 'w') as lk:
        fcntl.flock(lk, fcntl.LOCK_EX)
        h, files = tree_hash()
        outdir = os.path.join(CACHE, 'facts', h)
        os.makedirs(outdir, exist_ok=True)
        todo = [c for c in cfgs if not os.path.exists(os.path.join(outdir, c + '.diag.json'))]
        errors = {}
        if todo:
            snap = os.path.join(CACHE, 'snap')
            shutil.rmtree(snap, ignore_errors=True)
            for rel, data in files.items():
                p = os.path.join(snap, rel)
                os.makedirs(os.path.dirname(p), exist_ok=True)
                open(p, 'wb').write(data)
            sysroot = _sysroot()
            with ThreadPoolExecutor(max_workers=4) as ex:
                futs = {c: ex.submit(_extract, c, snap, outdir, sysroot) for c in todo}
                for c, f in futs.items():
                    try:
                        f.result()
                    except ExtractionError as e:
                        errors[c] = e
            _prune(os.path.join(CACHE, 'facts'), keep=h)
        for c in cfgs:
            if c in errors:
                continue
            d = json.load(open(os.path.join(outdir, c + '.diag.json')))
            if not d.get('ok'):
                errs = [x for x in d['diags'] if x['level'] == 'error']
                errors[c] = ExtractionError(c, 'crate does not build in configuration %s (%s): %s' % (
                    c, CONFIG_DESC[c], '; '.join('%s %s' % (x['code'], x['message']) for x in errs[:3]) or d.get('stderr', '')[-600:]), d['diags'])
        return h, outdir, errors


def _prune(root, keep, maxn=6, min_age=3600.0):
    """drop all but the newest caches of other trees; never one touched within the last hour (a parallel selftest
    run may be reading it)"""
    import time
    try:
        ds = sorted((os.path.getmtime(os.path.join(root, d)), d) for d in os.listdir(root) if d != keep)
    except OSError:
        return
    now = time.time()
    for mt, d in ds[:-maxn] if len(ds) > maxn else []:
        if now - mt > min_age:
            shutil.rmtree(os.path.join(root, d), ignore_errors=True)


class Facts(object):
    def __init__(self, cfg, data, diags, tree):
        self.cfg, self.raw, self.diags, self.tree = cfg, data, diags, tree
        self.fns = {}
        self.ambiguous = set()
        for f in data['fns']:
            k = f['key']
            if k in self.fns:   # anonymous consts (`const _: () = ...` of serde derives) share a name
                self.ambiguous.add(k)   # (also nested serde visitors); calls to such a key are opaque
                n = 1
                while '%s#%d' % (k, n) in self.fns:
                    n += 1
                k = f['key'] = '%s#%d' % (k, n)
            self.fns[k] = f
        self.adts = {a['path']: a for a in data['adts']}
        self.impls = data['impls']
        self.traits = {t['path']: t for t in data['traits']}
        self.statics = data['statics']
        self.features = data['features']
        self.crates = data['crates']
        # impl method index: (trait path, method name) -> [(impl, fn key)]
        self.impl_methods = {}
        for im in self.impls:
            for it in im['items']:
                if it['kind'] == 'AssocFn':
                    self.impl_methods.setdefault((im.get('trait'), it['name']), []).append((im, it['key']))

    def n_bodies(self):
        return len(self.fns)


_loaded = {}


def load(cfg):
    if cfg in _loaded:
        return _loaded[cfg]
    h, outdir, errors = ensure([cfg])
    if cfg in errors:
        raise errors[cfg]
    text = open(os.path.join(outdir, cfg + '.json')).read()
    data = json.loads(text)
    assert data['crate'] == 'helgoboss_midi' and data['format'] == int(FORMAT), 'fact file mismatch'
    renames = module_renames(data)
    if renames:
        # the crate's modules are private and re-exported at the root: moving or renaming one is not an API change.
        # Definition paths are mapped back to the module names the rules were written against.
        import re
        for old, new in renames:
            text = re.sub(r'(?<![A-Za-z0-9_:])' + re.escape(old) + ('' if old.endswith('::') else r'(?![A-Za-z0-9_])'), new, text)
        data = json.loads(text)
        data['module_renames'] = renames
    diags = json.load(open(os.path.join(outdir, cfg + '.diag.json')))['diags']
    f = Facts(cfg, data, diags, h)
    _loaded[cfg] = f
    return f


def module_renames(data):
    """[(current path prefix, baseline path prefix)] for public items that live in another module than at the pinned
    commit (spec/layout.json: item name -> module).  A whole module is renamed when every baseline item found in it
    agrees on the target; otherwise the items are renamed one by one."""
    lp = os.path.join(os.path.dirname(os.path.abspath(__file__)), 'spec', 'layout.json')
    try:
        layout = json.load(open(lp))
    except Exception:       # noqa
        return []

    def split(p):
        i = p.rfind('::')
        return (p[:i], p[i + 2:]) if i >= 0 else ('', p)
    cur = {'adt': {}, 'trait': {}, 'fn': {}}
    for a in data['adts']:
        if a['vis'] == 'Public':
            m, n = split(a['path'])
            cur['adt'].setdefault(n, set()).add(m)
    for t in data['traits']:
        m, n = split(t['path'])
        cur['trait'].setdefault(n, set()).add(m)
    for f in data['fns']:
        k = f['key']
        if f['kind'] == 'Fn' and f.get('vis') == 'Public' and '<' not in k and '{' not in k:
            m, n = split(k)
            cur['fn'].setdefault(n, set()).add(m)
    moved = {}          # current module -> {baseline module: [item names]}
    for kind in ('adt', 'trait', 'fn'):
        for name, base_mod in layout.get(kind, {}).items():
            mods = cur[kind].get(name)
            if not mods or len(mods) != 1:
                continue
            m = next(iter(mods))
            if m != base_mod and m:
                moved.setdefault(m, {}).setdefault(base_mod, []).append(name)
    all_cur_mods = set(m for d in cur.values() for ms in d.values() for m in ms)
    renames = []
    for m, targets in sorted(moved.items()):
        # baseline items that still live where they were would be dragged along by a module-level rename
        stay = any(layout[kind].get(n) == m for kind in cur for n, ms in cur[kind].items() if m in ms)
        if len(targets) == 1 and not stay and next(iter(targets)) not in all_cur_mods:
            renames.append((m + '::', next(iter(targets)) + '::'))
        else:
            for base_mod, names in sorted(targets.items()):
                for n in names:
                    renames.append((m + '::' + n, base_mod + '::' + n))
    # longest first, so that a nested module is handled before its parent
    renames.sort(key=lambda r: -len(r[0]))
    return renames


def load_many(cfgs):
    """Returns ({cfg: Facts}, {cfg: ExtractionError})."""
    h, outdir, errors = ensure(list(cfgs))
    ok = {}
    for c in cfgs:
        if c not in errors:
            ok[c] = load(c)
    return ok, errors


if __name__ == '__main__':
    t0 = time.time()
    cfgs = ['K1', 'K2', 'K3', 'K4', 'K1r', 'K2r'] if '--warm' in sys.argv else sys.argv[1:] or ['K1']
    ok, errors = load_many(cfgs)
    for c, f in ok.items():
        print('%s: %d bodies, %d adts, %d impls, features=%s, std=%s, %d diags' % (
            c, len(f.fns), len(f.adts), len(f.impls), f.features, 'std' in f.crates, len(f.diags)))
    for c, e in errors.items():
        print('ERROR', e)
    print('%.1fs' % (time.time() - t0))
    sys.exit(1 if errors else 0)
