"""Pretty printer for exported MIR (debugging aid and replay files)."""
import sys


def ty_str(ty):
    k = ty['k']
    if k in ('int', 'float'):
        return ty['name']
    if k in ('bool', 'char', 'str', 'never'):
        return {'never': '!'}.get(k, k)
    if k == 'adt':
        a = ', '.join(ty_str(t) for t in ty['args'] if t['k'] != 'lifetime')
        return ty['path'] + ('<%s>' % a if a else '')
    if k == 'param':
        return ty['name']
    if k == 'tuple':
        return '(' + ', '.join(ty_str(t) for t in ty['tys']) + ')'
    if k == 'ref':
        return '&' + ('mut ' if ty['mut'] else '') + ty_str(ty['ty'])
    if k == 'ptr':
        return '*' + ('mut ' if ty['mut'] else 'const ') + ty_str(ty['ty'])
    if k == 'array':
        return '[%s; %s]' % (ty_str(ty['ty']), ty['len'])
    if k == 'slice':
        return '[%s]' % ty_str(ty['ty'])
    if k in ('fndef', 'closure'):
        return '%s{%s}' % (k, ty['path'])
    if k == 'lifetime':
        return "'_"
    return ty.get('s', k)


def place_str(p):
    s = '_%d' % p['local']
    for e in p['proj']:
        k = e['k']
        if k == 'deref':
            s = '(*%s)' % s
        elif k == 'field':
            s = '%s.%d' % (s, e['i'])
        elif k == 'downcast':
            s = '(%s as %s)' % (s, e['name'] or e['v'])
        elif k == 'index':
            s = '%s[_%d]' % (s, e['local'])
        elif k == 'cindex':
            s = '%s[%s%d]' % (s, '-' if e['from_end'] else '', e['off'])
        else:
            s = '%s.<%s>' % (s, e.get('s', k))
    return s


def op_str(o):
    k = o['k']
    if k == 'copy':
        return place_str(o['place'])
    if k == 'move':
        return 'move ' + place_str(o['place'])
    if k == 'const':
        if 'fn' in o:
            return o['fn']['path_args']
        if 'bits' in o:
            return 'const %s_%s' % (o['bits'], ty_str(o['ty']))
        return 'const ' + o.get('s', '?')
    return '<%s>' % o.get('s', k)


def rv_str(rv):
    k = rv['k']
    if k == 'use':
        return op_str(rv['op'])
    if k == 'ref':
        return '&%s%s' % ('mut ' if rv['mut'] else '', place_str(rv['place']))
    if k == 'rawptr':
        return '&raw ' + place_str(rv['place'])
    if k == 'binop':
        return '%s(%s, %s)' % (rv['op'], op_str(rv['l']), op_str(rv['r']))
    if k == 'unop':
        return '%s(%s)' % (rv['op'], op_str(rv['x']))
    if k == 'cast':
        return '%s as %s (%s)' % (op_str(rv['x']), ty_str(rv['ty']), rv['kind'])
    if k == 'discr':
        return 'discriminant(%s)' % place_str(rv['place'])
    if k == 'aggregate':
        kd = rv['kind']
        ops = ', '.join(op_str(o) for o in rv['ops'])
        if kd['k'] == 'adt':
            return '%s#%d{%s}' % (kd['path'], kd['variant'], ops)
        return '%s(%s)' % (kd['k'], ops)
    if k == 'repeat':
        return '[%s; %s]' % (op_str(rv['x']), rv['n'])
    return '<%s>' % rv.get('s', k)


def body_str(fn, body=None):
    body = body or fn['body']
    out = ['fn %s  [%s]  args=%d' % (fn['key'], fn['kind'], body['arg_count'])]
    for i, l in enumerate(body['locals']):
        out.append('    let _%d: %s;' % (i, ty_str(l)))
    for i, b in enumerate(body['blocks']):
        out.append('  bb%d%s:' % (i, ' (cleanup)' if b['cleanup'] else ''))
        for s in b['stmts']:
            if s['k'] == 'assign':
                out.append('      %s = %s;   // %s' % (place_str(s['place']), rv_str(s['rv']), s['span']['at']))
            elif s['k'] == 'setdiscr':
                out.append('      discriminant(%s) = %d;' % (place_str(s['place']), s['v']))
            else:
                out.append('      <%s>' % s.get('s', s['k']))
        t = b['term']
        k = t['k']
        if k == 'goto':
            out.append('      goto -> bb%d' % t['t'])
        elif k == 'switch':
            out.append('      switchInt(%s) -> [%s, otherwise: bb%d]' % (
                op_str(t['x']), ', '.join('%s: bb%d' % (v, bb) for v, bb in t['targets']), t['otherwise']))
        elif k == 'call':
            out.append('      %s = %s(%s) -> %s   // %s' % (
                place_str(t['dest']), op_str(t['f']), ', '.join(op_str(a) for a in t['args']),
                'bb%d' % t['t'] if t['t'] is not None else '!', t['span']['at']))
        elif k == 'assert':
            out.append('      assert(%s%s, %s) -> bb%d   // %s' % (
                '' if t['expected'] else '!', op_str(t['cond']), t['msg'], t['t'], t['span']['at']))
        elif k == 'drop':
            out.append('      drop(%s) -> bb%d' % (place_str(t['place']), t['t']))
        else:
            out.append('      ' + k)
    return '\n'.join(out)


if __name__ == '__main__':
    from . import facts
    cfg = sys.argv[1]
    F = facts.load(cfg)
    for pat in sys.argv[2:]:
        for k in sorted(F.fns):
            if pat in k:
                print(body_str(F.fns[k]))
                for i, pb in enumerate(F.fns[k].get('promoted', [])):
                    print('  -- promoted[%d]' % i)
                    print(body_str(F.fns[k], pb))
                print()
