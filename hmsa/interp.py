"""E2: abstract interpreter over the exported MIR.

Forward, path-sensitive (trace partitioning: one abstract state per control-flow path, bounded by a
step budget, failing closed), interprocedural by inlining under a type substitution.  Scalars are
terms over input tokens with value sets (terms.py); aggregates are structural; references are
abstract pointers with strong updates.  Nothing is executed: every value is a set / a term.
"""
from . import terms as T
from .terms import VS, C, vs_of, refine, mk_cast, mk_op, mk_cmp, mk_not, tstr
from .mirpp import ty_str

# ------------------------------------------------------------------ types

UNIT = {'k': 'tuple', 'tys': []}
BOOL = {'k': 'bool'}


def INT(name):
    return {'k': 'int', 'name': name}


def subst_ty(ty, subst):
    k = ty['k']
    if k == 'param':
        if subst is not None and ty['index'] < len(subst) and subst[ty['index']] is not None \
                and subst[ty['index']]['k'] not in ('lifetime', 'constarg'):
            return subst[ty['index']]
        return ty
    if subst is None:
        return ty
    if k in ('int', 'bool', 'char', 'str', 'never', 'float', 'lifetime', 'constarg'):
        return ty
    out = dict(ty)
    if 'args' in ty:
        out['args'] = [subst_ty(t, subst) for t in ty['args']]
    if 'tys' in ty:
        out['tys'] = [subst_ty(t, subst) for t in ty['tys']]
    if 'parent_args' in ty:
        out['parent_args'] = [subst_ty(t, subst) for t in ty['parent_args']]
    if isinstance(ty.get('ty'), dict):
        out['ty'] = subst_ty(ty['ty'], subst)
    return out


def ty_is_abstract(ty):
    return ty['k'] in ('param', 'alias', 'other')


def scalar_name(ty):
    if ty['k'] == 'int':
        return ty['name']
    if ty['k'] == 'bool':
        return 'bool'
    if ty['k'] == 'char':
        return 'u32'
    return None


CORE_ENUMS = {
    # path -> [(variant name, n fields)]
    'core::option::Option': [('None', 0), ('Some', 1)],
    'core::result::Result': [('Ok', 1), ('Err', 1)],
    'core::ops::control_flow::ControlFlow': [('Continue', 1), ('Break', 1)],
    'core::cmp::Ordering': [('Less', 0), ('Equal', 0), ('Greater', 0)],
}
CORE_ENUM_DISCR = {'core::cmp::Ordering': [-1, 0, 1]}
OPAQUE_ADTS = ('std::time::Instant', 'core::time::Duration')

# ------------------------------------------------------------------ values (immutable)


class Sc(object):
    __slots__ = ('term', 'ty')

    def __init__(self, term, ty):
        self.term, self.ty = term, ty

    def __repr__(self):
        return tstr(self.term)


class Ag(object):
    """struct / enum variant / tuple ('()') value"""
    __slots__ = ('path', 'variant', 'fields')

    def __init__(self, path, variant, fields):
        self.path, self.variant, self.fields = path, variant, tuple(fields)

    def __repr__(self):
        return '%s#%d(%s)' % (self.path.split('::')[-1], self.variant, ', '.join(map(repr, self.fields)))


class Ar(object):
    """array with explicit elements"""
    __slots__ = ('elems',)

    def __init__(self, elems):
        self.elems = tuple(elems)

    def __repr__(self):
        if len(self.elems) > 4 and all(e is self.elems[0] for e in self.elems):
            return '[%r; %d]' % (self.elems[0], len(self.elems))
        return '[' + ', '.join(map(repr, self.elems)) + ']'


class Rf(object):
    """abstract pointer: frame id, local, path of ('f', i) / ('i', term) steps"""
    __slots__ = ('fid', 'local', 'path', 'mut')

    def __init__(self, fid, local, path, mut=False):
        self.fid, self.local, self.path, self.mut = fid, local, tuple(path), mut

    def __repr__(self):
        return '&f%d._%s%s' % (self.fid, self.local, ''.join('.%s' % (p[1] if p[0] == 'f' else '[%s]' % tstr(p[1])) for p in self.path))


class Un(object):
    """typed top"""
    __slots__ = ('ty', 'why')

    def __init__(self, ty, why=''):
        self.ty, self.why = ty, why

    def __repr__(self):
        return 'TOP<%s>%s' % (ty_str(self.ty) if self.ty else '?', '(%s)' % self.why if self.why else '')


class Clo(object):
    __slots__ = ('path', 'captures', 'subst')

    def __init__(self, path, captures, subst):
        self.path, self.captures, self.subst = path, tuple(captures), subst

    def __repr__(self):
        return 'closure{%s}' % self.path.split('::')[-1]


class FnV(object):
    """a function item used as a value (e.g. a tuple-struct constructor passed to Option::map)"""
    __slots__ = ('c', 'gargs')

    def __init__(self, c, gargs):
        self.c, self.gargs = c, gargs

    def __repr__(self):
        return 'fn{%s}' % self.c['path']


class It(object):
    """slice iterator: pointer to the array, position"""
    __slots__ = ('rf', 'pos', 'n')

    def __init__(self, rf, pos, n):
        self.rf, self.pos, self.n = rf, pos, n

    def __repr__(self):
        return 'iter(%r @%d/%d)' % (self.rf, self.pos, self.n)


def unit():
    return Ag('()', 0, ())


def val_key(v, ren=None):
    """structural key of a value (for equality / canonical state keys)"""
    if isinstance(v, Sc):
        return ('sc', v.term if ren is None else ren(v.term))
    if isinstance(v, Ag):
        return ('ag', v.path, v.variant, tuple(val_key(f, ren) for f in v.fields))
    if isinstance(v, Ar):
        return ('ar', tuple(val_key(e, ren) for e in v.elems))
    if isinstance(v, Rf):
        return ('rf', v.fid, v.local, v.path)
    if isinstance(v, Un):
        return ('un', ty_str(v.ty) if v.ty else '?')
    if isinstance(v, Clo):
        return ('clo', v.path)
    if isinstance(v, FnV):
        return ('fn', v.c['path'])
    if isinstance(v, It):
        return ('it', val_key(v.rf), v.pos, v.n)
    return ('?', repr(v))


def val_eq(a, b):
    return val_key(a) == val_key(b)


# ------------------------------------------------------------------ state


class Frame(object):
    __slots__ = ('fid', 'key', 'body', 'subst', 'dest', 'ret_bb', 'locals', 'bb', 'si', 'on_ret', 'depth')

    def __init__(self, fid, key, body, subst, dest, ret_bb, on_ret=None):
        self.fid, self.key, self.body, self.subst, self.dest, self.ret_bb = fid, key, body, subst, dest, ret_bb
        self.locals = {}
        self.bb, self.si = 0, 0
        self.on_ret = on_ret

    def clone(self):
        f = Frame(self.fid, self.key, self.body, self.subst, self.dest, self.ret_bb, self.on_ret)
        f.locals = dict(self.locals)
        f.bb, f.si = self.bb, self.si
        return f


class State(object):
    __slots__ = ('frames', 'heap', 'cons', 'preds', 'ntok', 'nfid', 'notes', 'events', 'steps')

    def __init__(self):
        self.frames = []          # call stack
        self.heap = {}            # fid -> Frame : root memory and promoted constants
        self.cons = {}            # term -> VS
        self.preds = []           # recorded relational branch conditions [(term, truth)]
        self.ntok = 0
        self.nfid = 1
        self.notes = []
        self.events = []          # per-path log: opaque calls etc.
        self.steps = 0

    def clone(self):
        s = State()
        s.frames = [f.clone() for f in self.frames]
        s.heap = {k: f.clone() for k, f in self.heap.items()}
        s.cons = dict(self.cons)
        s.preds = list(self.preds)
        s.ntok, s.nfid = self.ntok, self.nfid
        s.notes = list(self.notes)
        s.events = list(self.events)
        s.steps = self.steps
        return s

    def top(self):
        return self.frames[-1]

    def frame(self, fid):
        f = self.heap.get(fid)
        if f is not None:
            return f
        for f in self.frames:
            if f.fid == fid:
                return f
        raise KeyError('dangling frame %r' % fid)

    def fresh(self, hint, ty):
        self.ntok += 1
        return T.T('%s#%d' % (hint, self.ntok), ty)

    def root(self):
        return self.heap[0]


class Outcome(object):
    __slots__ = ('kind', 'value', 'st', 'site', 'why')

    def __init__(self, kind, value, st, site=None, why=''):
        self.kind, self.value, self.st, self.site, self.why = kind, value, st, site, why

    def __repr__(self):
        return '<%s %r %s>' % (self.kind, self.value, self.why)


class Lost(Exception):
    pass


class Fork(Exception):
    """raised while evaluating a statement when an abstract enum must be split by variant"""

    def __init__(self, place_root, alternatives):
        Exception.__init__(self)
        self.place_root, self.alternatives = place_root, alternatives


class SplitTerm(Exception):
    """raised when a constant lookup table is indexed by a symbolic term with few possible values: the state is split
    into one state per value"""

    def __init__(self, term, values):
        Exception.__init__(self)
        self.term, self.values = term, values


def is_ground(v):
    if isinstance(v, Sc):
        return v.term[0] == 'c'
    if isinstance(v, Ag):
        return all(is_ground(f) for f in v.fields)
    if isinstance(v, Ar):
        return all(is_ground(e) for e in v.elems)
    return False


# ------------------------------------------------------------------ invariants of the crate's types

NEWTYPE_MAX = {
    'u4_mod::U4': 15, 'u7_mod::U7': 127, 'u14_mod::U14': 16383,
    'channel_mod::Channel': 15, 'key_number_mod::KeyNumber': 127,
    'controller_number_mod::ControllerNumber': 127,
}


class Interp(object):
    STEP_BUDGET = 150000
    SPLIT_ANY_INDEX = True      # a symbolic index with at most 16 values into any non-uniform array splits the state
    SMALL_ENUM = 4              # field-less enums up to this many variants are split by variant when copied while unknown
    TIME_BUDGET = 30.0          # CPU seconds per run; exceeding it ends the remaining paths as 'lost' (fail closed)
    MAX_DEPTH = 40

    def __init__(self, facts, abstract_methods=None, opaque_calls=None, assume_invariants=True, observe=False):
        self.F = facts
        self.abstract_methods = abstract_methods or {}
        self.opaque_calls = opaque_calls or {}
        self.assume_invariants = assume_invariants
        self.observe = observe
        self.outcomes = []
        self.unmodelled = {}
        self.unmodelled_info = {}
        self.obs_ctor = {}
        self.obs_cast = {}
        self.obs_call = {}
        self.obs_assert = {}
        self.reached = set()
        self.total_steps = 0
        self.fns_entered = set()
        self.struct_invariant = None      # optional callable(interp, st, path, variant, fields, site)
        self.seen_loop_states = set()
        self.subsumed = 0

    # ================================================================ materialisation
    def adt(self, path):
        return self.F.adts.get(path)

    def top_of(self, st, ty, hint='v'):
        """most general value of a type; scalars become fresh tokens, newtypes get their invariant."""
        k = ty['k']
        n = scalar_name(ty)
        if n is not None:
            return Sc(st.fresh(hint, n), ty)
        if k == 'tuple':
            return Ag('()', 0, [self.top_of(st, t, '%s.%d' % (hint, i)) for i, t in enumerate(ty['tys'])])
        if k == 'adt':
            p = ty['path']
            if p in OPAQUE_ADTS:
                return Sc(st.fresh(hint, 'opaque'), ty)
            a = self.adt(p)
            if a is not None and a['kind'] == 'struct':
                targs = ty['args']
                fs = []
                for i, fd in enumerate(a['variants'][0]['fields']):
                    fs.append(self.top_of(st, subst_ty(fd['ty'], targs), '%s.%s' % (hint, fd['name'])))
                v = Ag(p, 0, fs)
                if self.assume_invariants and p in NEWTYPE_MAX and isinstance(fs[0], Sc):
                    st.cons[fs[0].term] = vs_of(fs[0].term, st.cons).meet(VS(0, NEWTYPE_MAX[p]))
                return v
            return Un(ty, hint)
        if k == 'array' and ty['len'] is not None and ty['len'] <= 64:
            return Ar([self.top_of(st, ty['ty'], '%s[%d]' % (hint, i)) for i in range(ty['len'])])
        if k == 'param' or k == 'alias':
            return Sc(st.fresh(hint, 'opaque'), ty)
        if k == 'ref':
            # allocate the referent in root memory
            inner = self.top_of(st, ty['ty'], hint)
            slot = 'm%d' % len(st.root().locals)
            st.root().locals[slot] = inner
            return Rf(0, slot, (), ty['mut'])
        return Un(ty, hint)

    def enum_variants(self, ty):
        """[(variant index, name, [field types])] for an enum type, or None"""
        if ty is None or ty['k'] != 'adt':
            return None
        p = ty['path']
        if p in CORE_ENUMS:
            targs = [a for a in ty['args'] if a['k'] not in ('lifetime', 'constarg')]
            if p == 'core::option::Option':
                return [(0, 'None', []), (1, 'Some', [targs[0]])]
            if p == 'core::result::Result':
                return [(0, 'Ok', [targs[0]]), (1, 'Err', [targs[1]])]
            if p == 'core::ops::control_flow::ControlFlow':
                return [(0, 'Continue', [targs[1]]), (1, 'Break', [targs[0]])]
            return [(i, n, []) for i, (n, _) in enumerate(CORE_ENUMS[p])]
        a = self.adt(p)
        if a is None or a['kind'] != 'enum':
            return None
        return [(i, v['name'], [subst_ty(f['ty'], ty['args']) for f in v['fields']]) for i, v in enumerate(a['variants'])]

    def split_enum(self, st, un, hint='e'):
        """all variants of an abstract enum value as (Ag) alternatives"""
        vs = self.enum_variants(un.ty)
        if vs is None:
            return None
        alts = []
        for i, name, ftys in vs:
            alts.append((i, ftys, name))
        return alts

    def discr_of(self, v):
        if v.path in CORE_ENUM_DISCR:
            return CORE_ENUM_DISCR[v.path][v.variant]
        a = self.adt(v.path)
        if a is not None and a['kind'] == 'enum':
            return int(a['variants'][v.variant]['discr'])
        return v.variant

    # ================================================================ places
    def _get_path(self, st, v, path):
        for p in path:
            v = self._step_read(st, v, p)
        return v

    def _step_read(self, st, v, p):
        if p[0] == 'f':
            if isinstance(v, Ag):
                if p[1] < len(v.fields):
                    return v.fields[p[1]]
                return Un(None, 'field %d of %r' % (p[1], v))
            if isinstance(v, Clo):
                return v.captures[p[1]] if p[1] < len(v.captures) else Un(None, 'capture')
            if isinstance(v, Un):
                return Un(self._field_ty(v.ty, p[1], p[2] if len(p) > 2 else None), 'field of top')
            return Un(None, 'field of %r' % (v,))
        if p[0] == 'r':
            # a sub-slice view lo..hi of an array (split_at and friends)
            if isinstance(v, Ar):
                return Ar(v.elems[p[1]:p[2]])
            return Un(None, 'sub-slice of %r' % (v,))
        if p[0] == 'i':
            if isinstance(v, Ar):
                vi = vs_of(p[1], st.cons)
                if vi.single() and 0 <= vi.lo < len(v.elems):
                    return v.elems[vi.lo]
                first = v.elems[0]
                if all(e is first or val_eq(e, first) for e in v.elems):
                    return first
                return Un(None, 'array element at symbolic index')
            if isinstance(v, Un) and v.ty and v.ty['k'] in ('array', 'slice'):
                return Un(v.ty['ty'], 'element of top array')
            return Un(None, 'index of %r' % (v,))
        raise Lost('read step %r' % (p,))

    def _field_ty(self, ty, i, variant):
        if ty is None:
            return None
        if ty['k'] == 'tuple':
            return ty['tys'][i] if i < len(ty['tys']) else None
        if ty['k'] == 'adt':
            a = self.adt(ty['path'])
            if a is not None:
                v = a['variants'][variant or 0]
                if i < len(v['fields']):
                    return subst_ty(v['fields'][i]['ty'], ty['args'])
            ev = self.enum_variants(ty)
            if ev is not None and variant is not None and variant < len(ev) and i < len(ev[variant][2]):
                return ev[variant][2][i]
        return None

    def resolve_place(self, st, fr, pl):
        """-> (frame, local, path) with derefs followed"""
        f, local, path = fr, pl['local'], []
        variant = None
        for p in pl['proj']:
            k = p['k']
            if k == 'deref':
                base = self._get_path(st, f.locals.get(local, Un(None, 'uninit')), path)
                if isinstance(base, Un) and base.ty is not None and base.ty['k'] == 'ref':
                    base = self._materialise_at(st, f, local, path, base)
                if not isinstance(base, Rf):
                    raise Lost('deref of non-pointer %r in %s' % (base, fr.key))
                f, local, path = st.frame(base.fid), base.local, list(base.path)
                variant = None
            elif k == 'field':
                path.append(('f', p['i'], variant))
                variant = None
            elif k == 'downcast':
                variant = p['v']
            elif k == 'index':
                idx = fr.locals.get(p['local'])
                if not isinstance(idx, Sc):
                    raise Lost('non-scalar index')
                vi = vs_of(idx.term, st.cons)
                if not vi.single() and not vi.empty() and vi.lo >= 0 and vi.hi - vi.lo < 64:
                    base = self._get_path(st, f.locals.get(local, Un(None, 'uninit')), path)
                    if isinstance(base, Ar) and ((is_ground(base) and not all(val_eq(e, base.elems[0]) for e in base.elems))
                                                 or (self.SPLIT_ANY_INDEX and vi.hi - vi.lo < 16 and not is_ground(base))):
                        raise SplitTerm(idx.term, sorted(vi.s) if vi.s is not None else list(range(vi.lo, vi.hi + 1)))
                path.append(('i', idx.term))
                variant = None
            elif k == 'cindex' and not p['from_end']:
                path.append(('i', C(p['off'])))
                variant = None
            else:
                raise Lost('unsupported projection %s' % k)
        return f, local, path

    def _materialise_at(self, st, f, local, path, un):
        v = self.top_of(st, un.ty, 'm')
        self._write_path(st, f, local, path, v)
        return v

    def read_place(self, st, fr, pl):
        f, local, path = self.resolve_place(st, fr, pl)
        v = f.locals.get(local)
        if v is None:
            return Un(None, 'uninitialised _%s in %s' % (local, f.key))
        # lazily materialise struct-typed tops on the way (and write them back for consistency)
        for n in range(len(path)):
            cur = self._get_path(st, v, path[:n])
            if isinstance(cur, Un) and cur.ty is not None and path[n][0] == 'f':
                m = None
                if cur.ty['k'] == 'tuple' or (cur.ty['k'] == 'adt' and self.adt(cur.ty['path']) is not None
                                              and self.adt(cur.ty['path'])['kind'] == 'struct'):
                    m = self.top_of(st, cur.ty, 'm')
                if m is not None:
                    self._write_path(st, f, local, path[:n], m)
                    v = f.locals.get(local)
        r = self._get_path(st, v, path)
        if isinstance(r, Un) and r.ty is not None and scalar_name(r.ty) is not None:
            r = Sc(st.fresh('m', scalar_name(r.ty)), r.ty)      # scalar top: a fresh unconstrained token
        return r

    def _write_path(self, st, f, local, path, val):
        if not path:
            f.locals[local] = val
            return
        root = f.locals.get(local)
        f.locals[local] = self._updated(st, root, list(path), val)

    def _updated(self, st, v, path, val):
        if not path:
            return val
        p = path[0]
        if p[0] == 'f':
            if isinstance(v, Un) or v is None:
                # writing a field of an uninitialised / top aggregate: build a shell
                ty = v.ty if isinstance(v, Un) else None
                n = p[1] + 1
                fields = [Un(self._field_ty(ty, i, p[2] if len(p) > 2 else None), 'unwritten') for i in range(n)]
                if ty is not None and ty['k'] == 'tuple':
                    fields = [Un(t, 'unwritten') for t in ty['tys']]
                    v = Ag('()', 0, fields)
                elif ty is not None and ty['k'] == 'adt':
                    a = self.adt(ty['path'])
                    var = (p[2] if len(p) > 2 and p[2] is not None else 0)
                    if a is not None:
                        fields = [Un(subst_ty(fd['ty'], ty['args']), 'unwritten') for fd in a['variants'][var]['fields']]
                    v = Ag(ty['path'], var, fields)
                else:
                    v = Ag('()', 0, fields)
            if isinstance(v, Ag):
                fs = list(v.fields)
                while len(fs) <= p[1]:
                    fs.append(Un(None, 'unwritten'))
                fs[p[1]] = self._updated(st, fs[p[1]], path[1:], val)
                return Ag(v.path, v.variant, fs)
            if isinstance(v, Clo):
                cs = list(v.captures)
                cs[p[1]] = self._updated(st, cs[p[1]], path[1:], val)
                return Clo(v.path, cs, v.subst)
            raise Lost('field write into %r' % (v,))
        if p[0] == 'r':
            if isinstance(v, Ar):
                sub = self._updated(st, Ar(v.elems[p[1]:p[2]]), path[1:], val)
                if isinstance(sub, Ar) and len(sub.elems) == p[2] - p[1]:
                    return Ar(list(v.elems[:p[1]]) + list(sub.elems) + list(v.elems[p[2]:]))
            raise Lost('sub-slice write into %r' % (v,))
        if p[0] == 'i':
            if isinstance(v, Ar):
                vi = vs_of(p[1], st.cons)
                es = list(v.elems)
                if vi.single() and 0 <= vi.lo < len(es):
                    es[vi.lo] = self._updated(st, es[vi.lo], path[1:], val)
                    return Ar(es)
                st.events.append(('weak-array-write', tstr(p[1])))
                return Ar([Un(None, 'weakly updated') for _ in es])
            raise Lost('index write into %r' % (v,))
        raise Lost('write step')

    def write_place(self, st, fr, pl, val, mat=False):
        f, local, path = self.resolve_place(st, fr, pl)
        if not mat and f.fid == 0 and local == 'self':
            st.events.append(('w', tuple(path)))       # explicit program write into the receiver (not a lazy materialisation)
        self._write_path(st, f, local, path, val)

    def deref(self, st, v):
        if isinstance(v, Rf):
            f = st.frame(v.fid)
            return self._get_path(st, f.locals.get(v.local, Un(None, 'uninit')), v.path)
        return v

    def deref_all(self, st, v):
        n = 0
        while isinstance(v, Rf) and n < 8:
            v = self.deref(st, v)
            n += 1
        return v

    def store_through(self, st, rf, val, mat=False):
        f = st.frame(rf.fid)
        if not mat and f.fid == 0 and rf.local == 'self':
            st.events.append(('w', tuple(rf.path)))
        self._write_path(st, f, rf.local, list(rf.path), val)

    # ================================================================ operands / rvalues
    def operand(self, st, fr, o):
        k = o['k']
        if k in ('copy', 'move'):
            v = self.read_place(st, fr, o['place'])
            if isinstance(v, Un) and v.ty is not None and v.ty['k'] == 'adt':
                # copying an unknown value of a small field-less enum would lose the link between the copy and the
                # original (`match (self.a, self.b)` builds a tuple of copies): split the original by variant first
                alts = self.enum_variants(v.ty)
                if alts is not None and 1 < len(alts) <= self.SMALL_ENUM and all(not ftys for _, _, ftys in alts):
                    raise Fork(o['place'], (v.ty, alts))
            return v
        if k == 'const':
            return self.const(st, fr, o)
        raise Lost('operand ' + k)

    def const(self, st, fr, o):
        ty = subst_ty(o['ty'], fr.subst)
        if 'fn' in o:
            return FnV(o['fn'], [subst_ty(a, fr.subst) for a in o['fn']['args']])
        if 'promoted' in o:
            return self.promoted(st, fr, o['promoted'], ty)
        n = scalar_name(ty)
        if 'bits' in o and n is not None:
            b = int(o['bits'])
            if n != 'bool' and n[0] == 'i':
                lo, hi = T.irange(n)
                if b > hi:
                    b -= (hi - lo + 1)
            return Sc(C(b), ty)
        if ty['k'] == 'tuple' and not ty['tys']:
            return unit()
        if o.get('def') and o.get('def_local') and o['def'] in self.F.fns and o['def'] not in self.F.ambiguous:
            return self.eval_const_item(st, o['def'], [subst_ty(a, fr.subst) for a in o.get('def_args', [])])
        if 'bits' in o and ty['k'] == 'adt':
            v = self.adt_from_bits(st, ty, int(o['bits']))
            if v is not None:
                return v
        if ty['k'] == 'adt':
            a = self.adt(ty['path'])
            if a is not None and a['kind'] == 'struct' and not a['variants'][0]['fields']:
                return Ag(ty['path'], 0, ())
        if ty['k'] == 'ref' and ty['ty']['k'] in ('str', 'slice'):
            return Un(ty, 'literal')
        return Un(ty, 'const ' + o.get('s', '?')[:40])

    def adt_from_bits(self, st, ty, bits):
        a = self.adt(ty['path'])
        if a is None:
            return None
        if a['kind'] == 'struct':
            fs = a['variants'][0]['fields']
            nz = [f for f in fs if not (f['ty']['k'] == 'tuple' and not f['ty']['tys'])]
            if len(nz) == 1:
                fty = subst_ty(nz[0]['ty'], ty['args'])
                n = scalar_name(fty)
                inner = Sc(C(bits), fty) if n is not None else (self.adt_from_bits(st, fty, bits) if fty['k'] == 'adt' else None)
                if inner is None:
                    return None
                return Ag(ty['path'], 0, [inner if f is nz[0] else unit() for f in fs])
            return None
        if a['kind'] == 'enum' and all(not v['fields'] for v in a['variants']):
            for i, v in enumerate(a['variants']):
                if int(v['discr']) & 0xff == bits & 0xff and int(v['discr']) >= 0:
                    if int(v['discr']) == bits:
                        return Ag(ty['path'], i, ())
        return None

    def eval_const_item(self, st, key, gargs):
        """evaluate a (local) const item's body; consts are straight-line"""
        sub = Interp(self.F, self.abstract_methods, self.opaque_calls, self.assume_invariants, False)
        sub_st = State()
        sub_st.heap[0] = Frame(0, '<root>', None, None, None, None)
        sub_st.ntok = st.ntok
        outs = sub.run_state(sub_st, key, [], gargs)
        rets = [o for o in outs if o.kind == 'return']
        if len(outs) == 1 and rets:
            v = rets[0].value
            if self._closed(v):
                return v
        return Un(None, 'const item ' + key)

    def _closed(self, v):
        if isinstance(v, Sc):
            return v.term[0] == 'c'
        if isinstance(v, Ag):
            return all(self._closed(f) for f in v.fields)
        if isinstance(v, Ar):
            return all(self._closed(f) for f in v.elems)
        if isinstance(v, FnV):
            return True          # a function item / pointer in a constant table
        return False

    def promoted(self, st, fr, idx, ty):
        body = self.F.fns[fr.key].get('promoted', [])
        if idx >= len(body):
            return Un(ty, 'promoted?')
        hk = ('prom', fr.key, idx)
        for fid, f in st.heap.items():
            if f.key == hk:
                return f.locals.get(0, Un(ty, 'promoted'))
        # evaluate the promoted body in a persistent heap frame (straight-line code)
        pf = Frame(st.nfid, hk, body[idx], fr.subst, None, None)
        st.nfid += 1
        st.heap[pf.fid] = pf
        bbi = 0
        for _ in range(64):
            blk = pf.body['blocks'][bbi]
            for stm in blk['stmts']:
                if stm['k'] == 'assign':
                    self.write_place(st, pf, stm['place'], self.rvalue(st, pf, stm['rv'], None))
            t = blk['term']
            if t['k'] == 'return':
                return pf.locals.get(0, Un(ty, 'promoted'))
            if t['k'] == 'goto':
                bbi = t['t']
                continue
            if t['k'] == 'call' and t['f'].get('fn') and t['t'] is not None:
                # the only const fn calls met in promoted constants: range constructors
                c = t['f']['fn']
                cargs = [self.operand(st, pf, a) for a in t['args']]
                if c['path'] == 'core::ops::range::RangeInclusive::<Idx>::new' and len(cargs) == 2:
                    self.write_place(st, pf, t['dest'], Ag('core::ops::range::RangeInclusive', 0, [cargs[0], cargs[1], Sc(C(0), BOOL)]))
                    bbi = t['t']
                    continue
            break
        return Un(ty, 'promoted body not straight-line')

    def rvalue(self, st, fr, rv, site):
        k = rv['k']
        if k == 'use':
            return self.operand(st, fr, rv['op'])
        if k == 'ref':
            pl = rv['place']
            f, local, path = self.resolve_place(st, fr, pl)
            return Rf(f.fid, local, path, rv['mut'])
        if k == 'binop':
            return self.binop(st, fr, rv)
        if k == 'unop':
            a = self.operand(st, fr, rv['x'])
            if isinstance(a, Sc):
                n = scalar_name(a.ty)
                if rv['op'] == 'Not' and n == 'bool':
                    return Sc(mk_not(a.term, st.cons), a.ty)
                if rv['op'] == 'Not' and n is not None and n[0] == 'u':
                    return Sc(mk_op('BitXor', a.term, C(T.irange(n)[1]), n, st.cons), a.ty)
                if rv['op'] == 'Neg' and n is not None:
                    return Sc(mk_op('Sub', C(0), a.term, n, st.cons), a.ty)
                if rv['op'] == 'PtrMetadata':
                    return Un(None, 'ptr metadata')
            if rv['op'] == 'PtrMetadata':
                tgt = self.deref(st, a) if isinstance(a, Rf) else None
                if isinstance(tgt, Ar):
                    return Sc(C(len(tgt.elems)), INT('usize'))
                return Sc(st.fresh('len', 'usize'), INT('usize'))
            return Un(None, 'unop %s' % rv['op'])
        if k == 'cast':
            return self.cast(st, fr, rv, site)
        if k == 'aggregate':
            ops = [self.operand(st, fr, o) for o in rv['ops']]
            kd = rv['kind']
            if kd['k'] == 'adt':
                v = Ag(kd['path'], kd['variant'], ops)
                if self.observe and site is not None:
                    self.note_ctor(st, fr, site, v)
                return v
            if kd['k'] == 'tuple':
                return Ag('()', 0, ops)
            if kd['k'] == 'array':
                return Ar(ops)
            if kd['k'] == 'closure':
                return Clo(kd['path'], ops, fr.subst)
            raise Lost('aggregate ' + kd['k'])
        if k == 'repeat':
            x = self.operand(st, fr, rv['x'])
            if rv['n'] is None or rv['n'] > 256:
                return Un(None, 'long repeat')
            return Ar([x] * rv['n'])
        if k == 'discr':
            v = self.read_place(st, fr, rv['place'])
            if isinstance(v, Ag):
                return Sc(C(self.discr_of(v)), INT('isize'))
            if isinstance(v, Un):
                ty = v.ty or subst_ty(rv['of'], fr.subst)
                alts = self.enum_variants(ty)
                if alts is not None:
                    raise Fork(rv['place'], (ty, alts))
            raise Lost('discriminant of %r' % (v,))
        if k == 'rawptr':
            raise Lost('raw pointer')
        raise Lost('rvalue ' + k + ' ' + rv.get('s', ''))

    def binop(self, st, fr, rv):
        a, b = self.operand(st, fr, rv['l']), self.operand(st, fr, rv['r'])
        op = rv['op']
        if op == 'Offset':
            raise Lost('pointer offset')
        if not (isinstance(a, Sc) and isinstance(b, Sc)):
            a2, b2 = self.deref_all(st, a), self.deref_all(st, b)
            if op in ('Eq', 'Ne') and isinstance(a2, Ag) and isinstance(b2, Ag):
                r = self.struct_eq(st, a2, b2)
                if r is not None:
                    return Sc(r if op == 'Eq' else mk_not(r, st.cons), BOOL)
            return Un(BOOL if op in ('Eq', 'Ne', 'Lt', 'Le', 'Gt', 'Ge') else None, 'binop %s on %r, %r' % (op, a, b))
        cm = {'Eq': 'eq', 'Ne': 'ne', 'Lt': 'lt', 'Le': 'le', 'Gt': 'gt', 'Ge': 'ge'}
        if op in cm:
            r = mk_cmp(cm[op], a.term, b.term, st.cons)
            if r[0] != 'c':
                # `x == (x as u8) as T`-style round-trip guards: a value compared with a wrapping cast of itself.
                # Split the value at the range of the cast's target type: inside, the cast is the identity; outside,
                # the two sides have disjoint value sets.
                sp = self._straddling_cast(st, None, a.term) or self._straddling_cast(st, None, b.term)
                if sp is not None:
                    raise SplitTerm(sp[0], sp[1])
            return Sc(r, BOOL)
        if op == 'Cmp':
            return Un(None, 'three-way compare')
        n = scalar_name(a.ty)
        if n == 'bool' and op in ('BitAnd', 'BitOr', 'BitXor'):
            return Sc(mk_op(op, a.term, b.term, None, st.cons), a.ty)
        if n is None or not T.is_int(n):
            return Un(a.ty, 'binop on non-int')
        if op.endswith('WithOverflow'):
            base = op[:-len('WithOverflow')]
            exact = mk_op(base, a.term, b.term, None, st.cons)
            lo, hi = T.irange(n)
            ve = vs_of(exact, st.cons)
            if ve.subset(VS(lo, hi)):
                ovf = C(0)
            else:
                over = mk_cmp('gt', exact, C(hi), st.cons)
                under = mk_cmp('lt', exact, C(lo), st.cons)
                if under == C(0):
                    ovf = over
                elif over == C(0):
                    ovf = under
                else:
                    ovf = mk_op('BitOr', over, under, None, st.cons)
            return Ag('()', 0, [Sc(mk_op(base, a.term, b.term, n, st.cons), a.ty), Sc(ovf, BOOL)])
        base = op.replace('Unchecked', '')
        if base in ('Shl', 'Shr'):
            # rust masks / asserts the shift amount separately; here the amount is taken as is
            pass
        return Sc(mk_op(base, a.term, b.term, n, st.cons), a.ty)

    def _straddling_cast(self, st, plain, other):
        """other: a term that contains a wrapping cast `x as T` of a token x whose value set straddles the range of T
        -> (x, [regions of x: below, inside, above the range of T]) or None"""
        def find(t):
            if t[0] == 'cast':
                v = vs_of(t[2], st.cons)
                rng = T.ty_vs(t[1])
                inner = t[2]
                while inner[0] == 'cast' and vs_of(inner[2], st.cons).subset(T.ty_vs(inner[1])):
                    inner = inner[2]
                if inner[0] == 't' and inner[2] != 'opaque' and not v.subset(rng) and not v.meet(rng).empty():
                    return inner, rng
                return find(t[2])
            if t[0] == 'op':
                return find(t[2]) or find(t[3])
            return None
        hit = find(other)
        if hit is None:
            return None
        x, rng = hit
        v = vs_of(x, st.cons)
        regions = [r for r in (VS(v.lo, rng.lo - 1) if v.lo < rng.lo else None, v.meet(rng), VS(rng.hi + 1, v.hi) if v.hi > rng.hi else None)
                   if r is not None and not r.empty()]
        return (x, regions) if len(regions) > 1 else None

    def struct_eq(self, st, a, b):
        if a.path != b.path:
            return None
        if a.variant != b.variant:
            return C(0)
        acc = C(1)
        for x, y in zip(a.fields, b.fields):
            x, y = self.deref_all(st, x), self.deref_all(st, y)
            if isinstance(x, Sc) and isinstance(y, Sc):
                r = mk_cmp('eq', x.term, y.term, st.cons)
            elif isinstance(x, Ag) and isinstance(y, Ag):
                r = self.struct_eq(st, x, y)
                if r is None:
                    return None
            else:
                return None
            if r == C(0):
                return C(0)
            if r != C(1):
                if acc == C(1):
                    acc = r
                else:
                    acc = mk_op('BitAnd', acc, r, None, st.cons)
        return acc

    def cast(self, st, fr, rv, site):
        a = self.operand(st, fr, rv['x'])
        ty = subst_ty(rv['ty'], fr.subst)
        kind = rv['kind']
        n = scalar_name(ty)
        if kind.startswith('IntToInt') and isinstance(a, Sc) and n is not None:
            if self.observe and site is not None:
                self.obs_cast.setdefault(site, []).append(
                    (vs_of(a.term, st.cons), scalar_name(a.ty), n, kind, fr.key, self.stack_keys(st)))
            return Sc(mk_cast(n, a.term, st.cons), ty)
        if 'PointerCoercion' in kind or kind.startswith('PtrToPtr') or kind.startswith('Transmute'):
            if kind.startswith('Transmute'):
                if self.observe and site is not None:
                    self.obs_cast.setdefault(site, []).append((None, ty_str(subst_ty(rv['from'], fr.subst)), ty_str(ty), kind, fr.key, self.stack_keys(st)))
                raise Lost('transmute')
            return a
        if self.observe and site is not None:
            self.obs_cast.setdefault(site, []).append(
                (vs_of(a.term, st.cons) if isinstance(a, Sc) else None, ty_str(subst_ty(rv['from'], fr.subst)), ty_str(ty), kind, fr.key, self.stack_keys(st)))
        if kind.startswith('IntToFloat') or kind.startswith('FloatToInt') or kind.startswith('FloatToFloat'):
            return Un(ty, 'float cast')
        return Un(ty, 'cast ' + kind)

    def stack_keys(self, st):
        return tuple(f.key for f in st.frames if isinstance(f.key, str))

    def note_ctor(self, st, fr, site, v):
        fields = []
        for f in v.fields:
            if isinstance(f, Sc):
                fields.append(vs_of(f.term, st.cons))
            else:
                fields.append(None)
        extra = None
        if self.struct_invariant is not None:
            extra = self.struct_invariant(self, st, v)
        self.obs_ctor.setdefault(site, []).append((v.path, v.variant, fields, extra, self.stack_keys(st)))

    # ================================================================ driving
    def new_state(self):
        st = State()
        st.heap[0] = Frame(0, '<root>', None, None, None, None)
        return st

    def run(self, key, args, subst=None, st=None):
        st = st or self.new_state()
        return self.run_state(st, key, args, subst)

    def run_state(self, st, key, args, subst):
        self.outcomes = []
        self.seen_loop_states = set()
        self.push(st, key, args, subst, None, None)
        work = [st]
        import time as _time
        t_end = _time.process_time() + self.TIME_BUDGET       # CPU time: the verdict must not depend on the load of the machine
        budget0 = self.total_steps
        while work:
            s = work.pop()
            try:
                work.extend(self.step(s))
            except SplitTerm as sp:      # raised below statement level (operand of a modelled call, ...): same treatment
                work.extend(self.split_term(s, sp))
            except Fork as fk:
                work.extend(self.fork_enum(s, s.top(), fk))
            except Lost as e:
                self.outcomes.append(Outcome('lost', None, s, self.cur_site(s), str(e)))
            self.total_steps += 1
            if self.total_steps - budget0 > self.STEP_BUDGET or (self.total_steps & 255 == 0 and _time.process_time() > t_end):
                for s2 in work:
                    self.outcomes.append(Outcome('lost', None, s2, None, 'step budget exhausted'))
                self.outcomes.append(Outcome('lost', None, s, None, 'step budget exhausted'))
                break
        return self.outcomes

    def cur_site(self, st):
        if not st.frames:
            return None
        fr = st.top()
        return (fr.key, fr.bb, fr.si)

    def push(self, st, key, args, subst, dest, ret_bb, on_ret=None):
        fn = self.F.fns[key]
        if len(st.frames) > self.MAX_DEPTH:
            raise Lost('call depth')
        fr = Frame(st.nfid, key, fn['body'], subst, dest, ret_bb, on_ret)
        st.nfid += 1
        for i, a in enumerate(args):
            fr.locals[i + 1] = a
        st.frames.append(fr)
        self.fns_entered.add(key)
        return fr

    def finish(self, st, kind, val, site=None, why=''):
        self.outcomes.append(Outcome(kind, val, st, site, why))

    def do_return(self, st, val):
        fr = st.frames.pop()
        if fr.on_ret is not None:
            return fr.on_ret(self, st, val)
        if not st.frames:
            self.finish(st, 'return', val)
            return []
        caller = st.top()
        self.write_place(st, caller, fr.dest, val)
        if fr.ret_bb is None:
            self.finish(st, 'diverge', None)
            return []
        caller.bb, caller.si = fr.ret_bb, 0
        return [st]

    def loop_heads(self, body):
        lh = body.get('_loop_heads')
        if lh is not None:
            return lh
        blocks = body['blocks']
        lh = set()
        color = {}
        stack = [(0, iter(self._succ(blocks[0])))]
        color[0] = 1
        while stack:
            n, it = stack[-1]
            adv = False
            for m in it:
                if m >= len(blocks) or blocks[m]['cleanup']:
                    continue
                c = color.get(m, 0)
                if c == 1:
                    lh.add(m)
                elif c == 0:
                    color[m] = 1
                    stack.append((m, iter(self._succ(blocks[m]))))
                    adv = True
                    break
            if not adv:
                color[n] = 2
                stack.pop()
        body['_loop_heads'] = lh
        return lh

    @staticmethod
    def _succ(blk):
        t = blk['term']
        k = t['k']
        if k in ('goto', 'drop', 'assert'):
            return [t['t']]
        if k == 'switch':
            return [bb for _, bb in t['targets']] + [t['otherwise']]
        if k == 'call':
            return [t['t']] if t['t'] is not None else []
        return []

    def state_key(self, st):
        ren = {}
        fidmap = {}
        for i, f in enumerate(st.frames):
            fidmap[f.fid] = ('s', i)
        for fid, f in st.heap.items():
            fidmap[fid] = ('h', f.key if fid else 0)

        def rt(t):
            k = t[0]
            if k == 'c':
                return t
            if k == 't':
                r = ren.get(t)
                if r is None:
                    r = ('t', 'r%d' % len(ren), t[2])
                    ren[t] = r
                return r
            if k == 'cast':
                return ('cast', t[1], rt(t[2]))
            if k == 'op':
                return ('op', t[1], rt(t[2]), rt(t[3]), t[4])
            if k == 'cmp':
                return ('cmp', t[1], rt(t[2]), rt(t[3]))
            if k == 'not':
                return ('not', rt(t[1]))
            if k == 'app':
                return ('app', t[1], tuple(rt(a) for a in t[2]))
            return t

        def vk(v):
            if isinstance(v, Sc):
                return ('sc', rt(v.term))
            if isinstance(v, Ag):
                return ('ag', v.path, v.variant, tuple(vk(f) for f in v.fields))
            if isinstance(v, Ar):
                return ('ar', tuple(vk(e) for e in v.elems))
            if isinstance(v, Rf):
                return ('rf', fidmap.get(v.fid, v.fid), v.local, tuple((p[0], rt(p[1])) if p[0] == 'i' else p for p in v.path))
            if isinstance(v, Un):
                return ('un', ty_str(v.ty) if v.ty else '?')
            if isinstance(v, Clo):
                return ('clo', v.path, tuple(vk(c) for c in v.captures))
            if isinstance(v, It):
                return ('it', vk(v.rf), v.pos, v.n)
            return ('?', repr(v))
        parts = []
        for f in st.frames:
            parts.append((f.key if isinstance(f.key, str) else repr(f.key), f.bb, f.si,
                          tuple((l, vk(v)) for l, v in sorted(f.locals.items(), key=lambda x: str(x[0])))))
        for fid, f in sorted(st.heap.items(), key=lambda x: str(x[0])):
            parts.append((repr(f.key), tuple((str(l), vk(v)) for l, v in sorted(f.locals.items(), key=lambda x: str(x[0])))))
        cons = []
        for t, v in st.cons.items():
            toks = T.tokens_of(t)
            if all(x in ren for x in toks):
                cons.append((repr(rt(t)), v.key()))
        cons.sort()
        preds = sorted(repr(p) for p in st.preds)
        return (tuple(parts), tuple(cons), tuple(preds))

    def step(self, st):
        fr = st.top()
        if fr.si == 0 and fr.bb in self.loop_heads(fr.body):
            k = self.state_key(st)
            if k in self.seen_loop_states:
                self.subsumed += 1
                return []
            self.seen_loop_states.add(k)
        blk = fr.body['blocks'][fr.bb]
        if self.observe:
            self.reached.add((fr.key, fr.bb))
        stmts = blk['stmts']
        while fr.si < len(stmts):
            stm = stmts[fr.si]
            site = (fr.key, fr.bb, fr.si)
            if stm['k'] == 'assign':
                try:
                    val = self.rvalue(st, fr, stm['rv'], site)
                except Fork as fk:
                    return self.fork_enum(st, fr, fk)
                except SplitTerm as sp:
                    return self.split_term(st, sp)
                self.write_place(st, fr, stm['place'], val)
            elif stm['k'] == 'setdiscr':
                v = self.read_place(st, fr, stm['place'])
                if isinstance(v, Ag):
                    self.write_place(st, fr, stm['place'], Ag(v.path, stm['v'], v.fields))
                else:
                    raise Lost('set discriminant on %r' % (v,))
            else:
                raise Lost('unsupported statement ' + stm.get('s', stm['k'])[:60])
            fr.si += 1
            st.steps += 1
        t = blk['term']
        k = t['k']
        if k == 'goto' or k == 'drop':
            fr.bb, fr.si = t['t'], 0
            return [st]
        if k == 'return':
            return self.do_return(st, fr.locals.get(0, unit()))
        if k == 'unreachable':
            self.finish(st, 'unreachable', None, (fr.key, fr.bb, 't'))
            return []
        if k == 'assert':
            try:
                return self.do_assert(st, fr, t)
            except Fork as fk:
                return self.fork_enum(st, fr, fk)
            except SplitTerm as sp:
                return self.split_term(st, sp)
        if k == 'switch':
            try:
                return self.do_switch(st, fr, t)
            except Fork as fk:
                return self.fork_enum(st, fr, fk)
            except SplitTerm as sp:
                return self.split_term(st, sp)
        if k == 'call':
            try:
                return self.call(st, fr, t)
            except Fork as fk:
                return self.fork_enum(st, fr, fk)
            except SplitTerm as sp:
                return self.split_term(st, sp)
        raise Lost('terminator ' + k + ' ' + t.get('s', '')[:60])

    def split_term(self, st, sp):
        outs = []
        for v in sp.values:
            s2 = st.clone()
            if T.refine(sp.term, v if isinstance(v, VS) else VS.one(v), s2.cons) and self._propagate_casts(s2):
                outs.append(s2)
        return outs

    def _propagate_casts(self, st):
        """constraints recorded on a wrapping cast `x as T` (the cast could not be inverted when they were learnt) apply to
        x itself once x is known to fit T"""
        for key in [k for k in st.cons if k[0] == 'cast']:
            inner = key[2]
            if vs_of(inner, st.cons).subset(T.ty_vs(key[1])):
                if not T.refine(inner, st.cons[key], st.cons):
                    return False
        return True

    def fork_enum(self, st, fr, fk):
        ty, alts = fk.alternatives
        outs = []
        for i, name, ftys in alts:
            s2 = st.clone()
            f2 = s2.top()
            fields = [self.top_of(s2, ft, name.lower()) for ft in ftys]
            self.write_place(s2, f2, fk.place_root, Ag(ty['path'], i, fields), mat=True)
            outs.append(s2)
        return outs

    def branch(self, st, term, want, record=True):
        """refine st so that `term` == want (0/1 or int); returns False when infeasible"""
        before = vs_of(term, st.cons)
        if not refine(term, VS.one(want), st.cons):
            return False
        if record and before.size() > 1 and self.is_relational(term, st):
            p = T.norm_pred(term, bool(want), st.cons)
            for q in st.preds:
                if q[0] == p[0] and q[1] == p[1]:
                    if q[2] != p[2]:
                        return False
                    return True
            st.preds.append(p)
        return True

    def is_relational(self, term, st):
        t = term
        while t[0] == 'not':
            t = t[1]
        if t[0] != 'cmp':
            return False
        a, b = t[2], t[3]
        if not vs_of(a, st.cons).single() and not vs_of(b, st.cons).single():
            return True
        # one side constant: relational when the other side combines two or more tokens, e.g. (x ^ y) == 0x20
        toks = [x for x in T.tokens_of(t) if not vs_of(x, st.cons).single()]
        return len(toks) >= 2

    def do_assert(self, st, fr, t):
        c = self.operand(st, fr, t['cond'])
        site = (fr.key, fr.bb, 't')
        exp = 1 if t['expected'] else 0
        if not isinstance(c, Sc):
            raise Lost('assert on %r' % (c,))
        outs = []
        v = vs_of(c.term, st.cons)
        ok_possible = v.has(exp)
        fail_possible = v.has(1 - exp)
        if self.observe:
            self.obs_assert.setdefault(site, []).append((t['msg'], fail_possible, self.stack_keys(st)))
        if fail_possible:
            s2 = st.clone() if ok_possible else st
            if self.branch(s2, c.term, 1 - exp):
                self.finish(s2, 'panic', None, site, 'assert ' + t['msg'])
        if ok_possible:
            if self.branch(st, c.term, exp):
                st.top().bb, st.top().si = t['t'], 0
                outs.append(st)
        return outs

    def do_switch(self, st, fr, t):
        x = self.operand(st, fr, t['x'])
        if not isinstance(x, Sc):
            raise Lost('switch on %r' % (x,))
        v = vs_of(x.term, st.cons)
        targets = [(int(val), bb) for val, bb in t['targets']]
        if not v.empty() and v.lo < 0:
            # switch values are raw bit patterns: a negative discriminant (Ordering::Less = -1) appears as 2^w - 1
            def signed(val):
                for w in (8, 16, 32, 64, 128):
                    if val < (1 << w):
                        return val - (1 << w) if val >= (1 << (w - 1)) and v.has(val - (1 << w)) else val
                return val
            targets = [(signed(val), bb) for val, bb in targets]
        if v.single():
            for val, bb in targets:
                if val == v.lo:
                    fr.bb, fr.si = bb, 0
                    return [st]
            fr.bb, fr.si = t['otherwise'], 0
            return [st]
        outs = []
        rest = v
        for val, bb in targets:
            if v.has(val):
                s2 = st.clone()
                if self.branch(s2, x.term, val):
                    s2.top().bb, s2.top().si = bb, 0
                    outs.append(s2)
            rest = rest.minus(VS.one(val))
        if not rest.empty():
            s2 = st
            ok = True
            if len(targets) == 1 and scalar_name(x.ty) == 'bool':
                ok = self.branch(s2, x.term, 1 - targets[0][0])
            else:
                ok = refine(x.term, rest, s2.cons)
            if ok:
                s2.top().bb, s2.top().si = t['otherwise'], 0
                outs.append(s2)
        return outs

    # ================================================================ calls
    def ret_ty(self, fr, t):
        pl = t['dest']
        ty = fr.body['locals'][pl['local']]
        for p in pl['proj']:
            if p['k'] == 'field':
                ty = p['ty']
            elif p['k'] == 'deref':
                ty = ty.get('ty', ty)
        return subst_ty(ty, fr.subst)

    def done(self, st, fr, t, val):
        self.write_place(st, fr, t['dest'], val)
        if t['t'] is None:
            self.finish(st, 'diverge', None)
            return []
        fr.bb, fr.si = t['t'], 0
        return [st]

    def call(self, st, fr, t):
        c = t['f'].get('fn')
        site = (fr.key, fr.bb, 't')
        if c is None:
            # a call through a function pointer / closure value held in a local (tables of constructors, `f(x)` with f: fn(..))
            fv = self.operand(st, fr, t['f']) if t['f'].get('k') in ('copy', 'move') else None
            if isinstance(fv, Rf):
                fv = self.deref_all(st, fv)
            if isinstance(fv, (FnV, Clo)):
                cargs = [self.operand(st, fr, a) for a in t['args']]
                r = self.call_closure(st, fv, cargs, lambda I2, s2, val: I2.done(s2, s2.top(), t, val))
                if r is not None:
                    return r
            raise Lost('indirect call')
        args = [self.operand(st, fr, a) for a in t['args']]
        gargs = [subst_ty(a, fr.subst) for a in c['args']]
        path = c['path']
        if self.observe:
            self.obs_call.setdefault(site, []).append((path, c.get('resolved'), self.stack_keys(st)))
        # ---- panics
        if path.startswith('core::panicking::') or path.startswith('std::rt::begin_panic') or path.startswith('core::option::expect_failed') \
                or path.startswith('core::result::unwrap_failed') or path.startswith('core::option::unwrap_failed'):
            self.finish(st, 'panic', None, site, path.split('::')[-1])
            return []
        if c.get('kind', '').startswith('Ctor') and c.get('ctor_adt'):
            v = Ag(c['ctor_adt'], int(c.get('ctor_variant', 0)), args)
            if self.observe:
                self.note_ctor(st, fr, site, v)
            return self.done(st, fr, t, v)
        if t['t'] is None and not c.get('local') and not c.get('trait'):
            # a diverging library call (std::panicking::begin_panic, process::abort, ...) ends the path like a panic
            self.finish(st, 'panic', None, site, path.split('::')[-1])
            return []
        from . import models
        r = models.dispatch(self, st, fr, t, c, args, gargs, site)
        if r is not None:
            return r
        self.unmodelled[c['path_args']] = self.unmodelled.get(c['path_args'], 0) + 1
        self.unmodelled_info[c['path_args']] = (c['path'], c.get('trait'), c.get('resolved_krate') or c['krate'], c.get('resolved'), fr.key)
        st.notes.append('unmodelled callee ' + c['path_args'])
        self.havoc_args(st, args)
        return self.done(st, fr, t, self.top_of(st, self.ret_ty(fr, t), 'ret'))

    def havoc_args(self, st, args):
        for a in args:
            if isinstance(a, Rf) and a.mut:
                cur = self.deref(st, a)
                self.store_through(st, a, Un(None, 'havoc'))
                st.events.append(('havoc', repr(a)))

    def invoke_local(self, st, fr, t, key, args, gargs, on_ret=None):
        if key in self.opaque_calls:
            return self.opaque_calls[key](self, st, fr, t, key, args, gargs)
        if key not in self.F.fns or key in self.F.ambiguous:
            return None
        if on_ret is not None:
            self.push(st, key, args, gargs, None, None, on_ret)
        else:
            self.push(st, key, args, gargs, t['dest'], t['t'])
        return [st]

    def call_fn_value(self, st, fv, call_args, on_ret):
        c = fv.c
        fr = st.top()
        if c.get('kind', '').startswith('Ctor') and c.get('ctor_adt'):
            v = Ag(c['ctor_adt'], int(c.get('ctor_variant', 0)), list(call_args))
            if self.observe:
                self.note_ctor(st, fr, (fr.key, fr.bb, 't'), v)
            return on_ret(self, st, v)
        from . import models
        key = None
        sub = fv.gargs
        if c.get('trait'):
            hit = models.find_impl(self, c['trait'], c['name'], fv.gargs)
            tr, nm = c['trait'], c['name']
            if not hit and tr in ('core::convert::Into', 'core::convert::TryInto') and len(fv.gargs) >= 2:
                # the blanket impls: Into<U> for T via From<T> for U (same for TryInto / TryFrom)
                hit = models.find_impl(self, 'core::convert::From' if tr.endswith('::Into') else 'core::convert::TryFrom',
                                       'from' if tr.endswith('::Into') else 'try_from', [fv.gargs[1], fv.gargs[0]])
            if not hit and tr in ('core::convert::Into', 'core::convert::From') and len(fv.gargs) >= 2 and len(call_args) == 1:
                to_ty, from_ty = (fv.gargs[1], fv.gargs[0]) if tr.endswith('::Into') else (fv.gargs[0], fv.gargs[1])
                a = call_args[0]
                tn, fn_ = scalar_name(to_ty), scalar_name(from_ty)
                if ty_str(to_ty) == ty_str(from_ty):
                    return on_ret(self, st, a)
                if tn is not None and fn_ is not None and isinstance(a, Sc) and tn != 'bool':
                    return on_ret(self, st, Sc(mk_cast(tn, a.term, st.cons), to_ty))      # core's lossless primitive From impls
            if hit:
                key, sub = hit
            elif c.get('has_default') and c['path'] in self.F.fns:
                key = c['path']
        elif c.get('local') and c['path'] in self.F.fns:
            key = c['path']
        if key is None or key in self.F.ambiguous:
            return None
        self.push(st, key, list(call_args), sub, None, None, on_ret)
        return [st]

    def call_closure(self, st, clo_val, call_args, on_ret):
        """invoke a closure value with already untupled arguments; on_ret(interp, st, val) continues"""
        clo = self.deref_all(st, clo_val)
        if isinstance(clo, FnV):
            return self.call_fn_value(st, clo, call_args, on_ret)
        if not isinstance(clo, Clo) or clo.path not in self.F.fns:
            return None
        body = self.F.fns[clo.path]['body']
        # closure bodies take the environment as _1 (by value or by reference)
        envty = body['locals'][1]
        if envty['k'] == 'ref':
            slot = 'c%d' % len(st.root().locals)
            st.root().locals[slot] = clo
            env = Rf(0, slot, (), envty['mut'])
        else:
            env = clo
        self.push(st, clo.path, [env] + list(call_args), clo.subst, None, None, on_ret)
        return [st]
