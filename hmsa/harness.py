"""Abstract short messages and factories for the interpreter, and comparison helpers.

An *abstract implementor* of `ShortMessage` is one whose three required getters return given terms
(usually the input tokens status / d1 / d2): results obtained with it hold for every implementor.
An *abstract factory* `T: ShortMessageFactory` has an opaque `from_bytes_unchecked`; its result is
the symbolic value FBU(bytes), so that what a constructor hands to the factory can be inspected.
"""
from . import terms as T
from .terms import VS, C, vs_of
from .interp import Interp, Sc, Ag, Ar, Rf, Un, INT, BOOL, unit, subst_ty, val_key
from .spec import midi

SM = 'short_message::ShortMessage'
SMF = 'short_message_factory::ShortMessageFactory'
U7P = 'u7_mod::U7'
RAW = 'raw_short_message::RawShortMessage'
STRUCT = 'structured_short_message::StructuredShortMessage'
FBU = '<abstract factory>::from_bytes_unchecked'
U8 = INT('u8')
U16 = INT('u16')


def adt_ty(path):
    return {'k': 'adt', 'path': path, 'krate': 'helgoboss_midi', 'args': []}


def param(name='Self', index=0):
    return {'k': 'param', 'name': name, 'index': index}


STATUS, D1, D2 = T.T('status', 'u8'), T.T('d1', 'u8'), T.T('d2', 'u8')


def u7(term):
    return Ag(U7P, 0, [Sc(term, U8)])


def nt(short, term):
    return Ag(midi.NEWTYPE_PATH[short], 0, [Sc(term, INT(midi.NEWTYPE_REPR[short]))])


def msg_hooks(status=STATUS, d1=D1, d2=D2, by_receiver=None):
    """getters of the abstract implementor. `by_receiver`: optional dict receiver-repr -> (s, d1, d2)."""
    def pick(I, st, args, i):
        recv = I.deref_all(st, args[0])
        if isinstance(recv, Ag) and recv.path == FBU:
            tup = recv.fields[0]
            return tup.fields[i]
        if by_receiver is not None:
            k = repr(args[0])
            if k in by_receiver:
                x = by_receiver[k][i]
                return Sc(x, U8) if i == 0 else u7(x)
        return Sc(status, U8) if i == 0 else u7((d1, d2)[i - 1])

    def h_status(I, st, fr, t, args, gargs):
        return pick(I, st, args, 0)

    def h_d1(I, st, fr, t, args, gargs):
        return pick(I, st, args, 1)

    def h_d2(I, st, fr, t, args, gargs):
        return pick(I, st, args, 2)
    return {(SM, 'status_byte'): h_status, (SM, 'data_byte_1'): h_d1, (SM, 'data_byte_2'): h_d2}


def fbu_hook():
    def h(I, st, fr, t, args, gargs):
        st.events.append(('fbu', args[0]))
        return Ag(FBU, 0, [args[0]])
    return {(SMF, 'from_bytes_unchecked'): h}


def base_cons(status_vs=None, d1_vs=None, d2_vs=None):
    return {STATUS: status_vs or VS(0, 255), D1: d1_vs or VS(0, 127), D2: d2_vs or VS(0, 127)}


# ------------------------------------------------------------------ spec-side terms

def t_low_nibble(status, cons):
    return T.mk_op('BitAnd', status, C(15), None, cons)


def t_14(d1, d2, cons):
    """data byte 2 x 128 + data byte 1"""
    return T.mk_op('BitOr', T.mk_op('Shl', d2, C(7), None, cons), d1, None, cons)


def t_low7(v, cons):
    return T.mk_op('BitAnd', v, C(0x7f), None, cons)


def t_high7(v, cons):
    return T.mk_op('BitAnd', T.mk_op('Shr', v, C(7), None, cons), C(0x7f), None, cons)


def same(a, b, cons):
    """two scalar terms denote the same value (structurally or by bit provenance)"""
    return a == b or T.same_value(a, b, cons, 32)


def scalar_of(v):
    """the scalar inside a (possibly newtype-wrapped) value"""
    while isinstance(v, Ag) and v.path in midi.PATH_NEWTYPE and len(v.fields) == 1:
        v = v.fields[0]
    return v if isinstance(v, Sc) else None


def describe(v, cons):
    s = scalar_of(v)
    if s is not None:
        b = T.bits_of(s.term, cons, 16)
        return '%s = %s' % (T.tstr(s.term), T.bits_str(b))
    return repr(v)


def values_equal(a, b, cons):
    """structural equality of two abstract values with scalar comparison by `same`"""
    if isinstance(a, Sc) and isinstance(b, Sc):
        return same(a.term, b.term, cons)
    if isinstance(a, Ag) and isinstance(b, Ag):
        return a.path == b.path and a.variant == b.variant and len(a.fields) == len(b.fields) and \
            all(values_equal(x, y, cons) for x, y in zip(a.fields, b.fields))
    if isinstance(a, Ar) and isinstance(b, Ar):
        return len(a.elems) == len(b.elems) and all(values_equal(x, y, cons) for x, y in zip(a.elems, b.elems))
    return False


def variant_index(F, path, name):
    a = F.adts.get(path)
    if a is None:
        return None
    for i, v in enumerate(a['variants']):
        if v['name'] == name:
            return i
    return None


def variant_name(F, v):
    a = F.adts.get(v.path)
    if a is None:
        return '%s#%d' % (v.path, v.variant)
    return a['variants'][v.variant]['name']


def field_index(F, path, variant, fname):
    a = F.adts.get(path)
    if a is None:
        return None
    for i, f in enumerate(a['variants'][variant]['fields']):
        if f['name'] == fname:
            return i
    return None


def opt_payload(v):
    """Option value -> ('none',) | ('some', payload) | None"""
    if isinstance(v, Ag) and v.path == 'core::option::Option':
        return ('none',) if v.variant == 0 else ('some', v.fields[0])
    return None


# ------------------------------------------------------------------ running default methods

def run_method(F, key, self_kind, cons, extra_hooks=None, self_value=None, subst=None, args_extra=(), observe=False):
    """interpret trait method `key` for an abstract / raw / structured receiver.
    self_kind: 'abstract' (opaque getters), 'value' (self_value given, concrete type)"""
    hooks = {}
    hooks.update(msg_hooks())
    hooks.update(fbu_hook())
    if extra_hooks:
        hooks.update(extra_hooks)
    I = Interp(F, abstract_methods=hooks, observe=observe)
    st = I.new_state()
    st.cons.update(cons)
    if self_kind == 'abstract':
        st.root().locals['self'] = Sc(T.T('self', 'opaque'), param())
        sub = subst or [param()]
    else:
        st.root().locals['self'] = self_value
        sub = subst
    args = [Rf(0, 'self', ())] + list(args_extra)
    outs = I.run(key, args, sub, st)
    return I, outs
