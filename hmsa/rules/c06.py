"""C06 — factory constructors build exactly the message they describe.

Each named constructor (a trait default of ShortMessageFactory) is interpreted for an *abstract
factory*: the tuple that reaches `Self::from_bytes_unchecked` must be, by bit provenance,
(type code | channel, data byte 1, data byte 2) as the oracle's constructor table prescribes.
Generic constructors: per message type, panic exactly for a wrong category, otherwise bytes placed
unchanged.  test_util shorthands: panic exactly for out-of-range arguments, otherwise the same bytes.
"""
from .. import terms as T
from ..terms import VS, C, vs_of
from ..interp import Interp, Sc, Ag, Un, Rf
from ..entry import entry_args
from ..report import Check, fn_subject
from ..spec import midi
from .. import harness as H
from .common import load_configs, guarded, TRUSTED
from . import c01

PID = 'C06'
SMT = 'short_message::ShortMessageType'
TQ = 'short_message::TimeCodeQuarterFrame'


def frame_bits(F, fv, cons):
    """oracle bits of data byte 1 for a quarter frame value (0kkk nnnn / 0111 0ttb)"""
    kind = midi.QUARTER_FRAME_KINDS.index(H.variant_name(F, fv))
    bits = [0] * 8
    for j in range(3):
        bits[4 + j] = (kind >> j) & 1
    if kind < 7:
        nb = T.bits_of(H.scalar_of(fv.fields[0]).term, cons, 8)
        for j in range(4):
            bits[j] = nb[j]
        return bits
    a = F.adts[TQ]['variants'][fv.variant]['fields']
    ib = [i for i, f in enumerate(a) if f['name'] == 'hours_count_ms_bit'][0]
    it = [i for i, f in enumerate(a) if f['name'] == 'time_code_type'][0]
    bb = T.bits_of(fv.fields[ib].term, cons, 8)
    bits[0] = bb[0]
    tt = midi.TIME_CODE_TYPES.index(H.variant_name(F, fv.fields[it]))
    bits[1], bits[2] = tt & 1, (tt >> 1) & 1
    return bits


def expected_tuple(F, tname, roles, args, cons):
    """-> (status bits, d1 bits, d2 bits), each a list of 8 bit descriptors"""
    code = midi.TYPE[tname][1]
    st, d1, d2 = T._cbits(code, 8), [0] * 8, [0] * 8
    for role, a in zip(roles, args):
        if role == 'type':
            continue
        if role == 'frame':
            d1 = frame_bits(F, a, cons)
            continue
        s = H.scalar_of(a)
        b = T.bits_of(s.term, cons, 16)
        if role == 'ch':
            st = [b[j] if j < 4 else st[j] for j in range(8)]
        elif role == 'd1':
            d1 = b[:8]
        elif role == 'd2':
            d2 = b[:8]
        elif role == 'v14':
            d1 = b[:7] + [0]
            d2 = b[7:14] + [0]
    return st, d1, d2


def tuple_bits(tup, cons):
    out = []
    for f in tup.fields:
        s = H.scalar_of(f)
        out.append(T.bits_of(s.term, cons, 8) if s is not None else None)
    return out


def fmt_bits(bs):
    return ' | '.join(T.bits_str(b) for b in bs)


def run_ctor(F, key, args, st, self_ty=None):
    hooks = {}
    hooks.update(H.msg_hooks())
    hooks.update(H.fbu_hook())
    I = Interp(F, abstract_methods=hooks)
    outs = I.run(key, args, [self_ty or H.param()], st)
    return I, outs


def named_constructors(chk, F):
    cfg = F.cfg
    tr = F.traits.get(H.SMF, {'items': []})
    names = {it['name']: it for it in tr['items'] if it['kind'] == 'AssocFn'}
    covered = set(midi.CONSTRUCTORS) | set(midi.GENERIC_CONSTRUCTORS) | {'from_bytes', 'from_bytes_unchecked', 'from_other'}
    extra = sorted(n.replace('r#', '') for n in names if n.replace('r#', '') not in covered)
    chk.ob('%s/constructor-inventory/%s' % (PID, cfg), 'constructor table', 'proved' if not extra else 'unproven',
           expected='every constructor of the trait has an oracle entry', found=extra,
           why='constructors without an oracle entry: %s' % extra if extra else '', nontrivial=False)
    n = 0
    for name, (tname, roles) in sorted(midi.CONSTRUCTORS.items()):
        it = names.get(name) or names.get('r#' + name)
        key = '%s/constructor/%s/%s' % (PID, cfg, name)
        if it is None:
            chk.ob(key, 'constructor table', 'refuted', expected='constructor exists', found='missing', nontrivial=False)
            continue
        n += 1

        def ev(it=it, name=name, tname=tname, roles=roles, key=key):
            fn = F.fns[it['key']]
            I0 = Interp(F)
            st0 = I0.new_state()
            args0 = entry_args(I0, st0, fn, [H.param()])
            if len(args0) != len(roles):
                return chk.ob(key, 'constructor table', 'unproven', subject=fn_subject(F, it['key']),
                              why='constructor takes %d arguments, oracle has %d' % (len(args0), len(roles)))
            variants = [(st0, args0)]
            if 'frame' in roles:
                variants = []
                for fv, cons in c01.field_shapes(F, H.adt_ty(TQ), 'frame'):
                    s = I0.new_state()
                    s.cons.update(cons)
                    variants.append((s, [fv]))
            status, why, found = 'proved', '', []
            for st, args in variants:
                I, outs = run_ctor(F, it['key'], args, st.clone())
                for o in outs:
                    if o.kind != 'return' or not (isinstance(o.value, Ag) and o.value.path == H.FBU):
                        status = 'refuted' if o.kind == 'panic' else 'unproven'
                        why = '%s outcome: %r %s' % (o.kind, o.value, o.why)
                        continue
                    got = tuple_bits(o.value.fields[0], o.st.cons)
                    want = list(expected_tuple(F, tname, roles, args, o.st.cons))
                    if len(found) < 2:
                        found.append(fmt_bits(got))
                    if got != want:
                        status = 'refuted'
                        why = 'bytes handed to the factory are (%s), expected (%s)' % (fmt_bits(got), fmt_bits(want))
            chk.ob(key, 'constructor table', status, subject=fn_subject(F, it['key']),
                   expected='%s: %s' % (tname, roles), found=found, why=why)
        guarded(chk, key, 'constructor table', ev)
    chk.floor('named_constructors', 19, n)


def generic_constructors(chk, F):
    cfg = F.cfg
    a = F.adts[SMT]
    for name, (req, roles) in sorted(midi.GENERIC_CONSTRUCTORS.items()):
        fk = H.SMF + '::' + name
        for vi, v in enumerate(a['variants']):
            tname = v['name']
            key = '%s/generic-constructor/%s/%s/%s' % (PID, cfg, name, tname)

            def ev(fk=fk, vi=vi, tname=tname, req=req, roles=roles, key=key):
                fn = F.fns[fk]
                I0 = Interp(F)
                st = I0.new_state()
                args = entry_args(I0, st, fn, [H.param()])
                args[0] = Ag(SMT, vi, ())
                I, outs = run_ctor(F, fk, args, st)
                should_panic = midi.FUZZY[tname] != req
                status, why, found = 'proved', '', []
                for o in outs:
                    found.append(o.kind)
                    if should_panic:
                        if o.kind != 'panic':
                            status, why = 'refuted', 'type %s is not a %s type but the constructor returns %r' % (tname, req, o.value)
                        continue
                    if o.kind != 'return' or not (isinstance(o.value, Ag) and o.value.path == H.FBU):
                        status, why = ('refuted' if o.kind == 'panic' else 'unproven'), '%s outcome for a valid type (%s)' % (o.kind, o.why)
                        continue
                    got = tuple_bits(o.value.fields[0], o.st.cons)
                    want = list(expected_tuple(F, tname, roles, args, o.st.cons))
                    if got != want:
                        status, why = 'refuted', 'bytes (%s), expected (%s)' % (fmt_bits(got), fmt_bits(want))
                chk.ob(key, 'generic constructor', status, subject=fn_subject(F, fk),
                       expected='panic' if should_panic else 'bytes placed unchanged', found=found, why=why)
            guarded(chk, key, 'generic constructor', ev)


SHORTHAND_INT = {'u4': ('U4', 15), 'u7': ('U7', 127), 'u14': ('U14', 16383), 'channel': ('Channel', 15),
                 'key_number': ('KeyNumber', 127), 'controller_number': ('ControllerNumber', 127)}


def shorthands(chk, F):
    cfg = F.cfg
    n = 0
    for name, (short, mx) in sorted(SHORTHAND_INT.items()):
        fk = 'test_util::' + name
        key = '%s/shorthand/%s/%s' % (PID, cfg, name)

        def ev(fk=fk, key=key, short=short, mx=mx):
            if fk not in F.fns:
                return chk.ob(key, 'shorthand', 'unproven', why='%s not found' % fk)
            I0 = Interp(F)
            st = I0.new_state()
            args = entry_args(I0, st, F.fns[fk], [])
            tok = args[0].term
            I, outs = run_ctor(F, fk, args, st)
            status, why, found = 'proved', '', []
            for o in outs:
                v = vs_of(tok, o.st.cons)
                found.append('%s for %r' % (o.kind, v))
                if o.kind == 'return':
                    s = H.scalar_of(o.value)
                    if not v.subset(VS(0, mx)) or s is None or s.term != tok or o.value.path != midi.NEWTYPE_PATH[short]:
                        status, why = 'refuted', 'returns %r for argument in %r' % (o.value, v)
                elif o.kind == 'panic':
                    if not v.meet(VS(0, mx)).empty():
                        status, why = 'refuted', 'panics for in-range argument in %r' % v
                else:
                    status, why = 'unproven', o.kind
            chk.ob(key, 'shorthand', status, subject=fn_subject(F, fk), expected='value for 0..%d, panic above' % mx, found=found, why=why)
        guarded(chk, key, 'shorthand', ev)
    for name, (tname, roles) in sorted(midi.CONSTRUCTORS.items()):
        fk = 'test_util::' + name
        if fk not in F.fns:
            fk = 'test_util::r#' + name
        key = '%s/shorthand/%s/%s' % (PID, cfg, name)
        if fk not in F.fns:
            chk.ob(key, 'shorthand', 'unproven', why='shorthand %s not found' % name, nontrivial=False)
            continue
        n += 1

        def ev2(fk=fk, key=key, tname=tname, roles=roles):
            I0 = Interp(F)
            st0 = I0.new_state()
            args0 = entry_args(I0, st0, F.fns[fk], [])
            variants = [(st0, args0)]
            if 'frame' in roles:
                variants = []
                for fv, cons in c01.field_shapes(F, H.adt_ty(TQ), 'frame'):
                    s = I0.new_state()
                    s.cons.update(cons)
                    variants.append((s, [fv]))
            status, why, found = 'proved', '', []
            for st, args in variants:
                I, outs = run_ctor(F, fk, args, st.clone())
                accepted = None
                for o in outs:
                    ranges = []
                    for role, a in zip(roles, args):
                        if role in midi.ROLE_RANGE:
                            ranges.append((role, vs_of(a.term, o.st.cons), VS(*midi.ROLE_RANGE[role])))
                    if o.kind == 'panic':
                        if ranges and all(not v.meet(r).empty() for _, v, r in ranges):
                            status, why = 'refuted', 'panics although every argument can be in range: %r' % [(x, repr(v)) for x, v, r in ranges]
                        if not ranges:
                            status, why = 'refuted', 'panics without arguments'
                        continue
                    if o.kind != 'return':
                        status, why = 'unproven', '%s (%s)' % (o.kind, o.why)
                        continue
                    if any(not v.subset(r) for _, v, r in ranges):
                        status, why = 'refuted', 'returns for out-of-range arguments %r' % [(x, repr(v)) for x, v, r in ranges]
                        continue
                    # (the accepted inputs may be spread over several returning paths - a range check by `leading_zeros`
                    # splits them; every in-range input lies on some path, and a panicking path must have an argument
                    # entirely out of range, so it is enough that each returning path stays inside the valid box)
                    accepted = [(x, v if accepted is None else v.join(dict((y, w) for y, w, _ in accepted)[x]), r) for x, v, r in ranges]
                    tup = o.value.fields[0] if isinstance(o.value, Ag) and o.value.path == H.RAW else None
                    if tup is None:
                        status, why = 'refuted', 'result %r is not a RawShortMessage' % (o.value,)
                        continue
                    got = tuple_bits(tup, o.st.cons)
                    want = list(expected_tuple(F, tname, roles, args, o.st.cons))
                    if len(found) < 2:
                        found.append(fmt_bits(got))
                    if got != want:
                        status, why = 'refuted', 'bytes (%s), expected (%s)' % (fmt_bits(got), fmt_bits(want))
                if accepted is not None and status == 'proved' and any(v != r for _, v, r in accepted):
                    status, why = 'refuted', 'valid arguments rejected: accepted only %r' % [(x, repr(v)) for x, v, r in accepted]
            chk.ob(key, 'shorthand', status, subject=fn_subject(F, fk), expected='%s %s, panic exactly for out-of-range arguments' % (tname, roles),
                   found=found, why=why)
        guarded(chk, key, 'shorthand', ev2)
    chk.floor('message_shorthands', 19, n)
    # short(status, d1, d2)
    key = '%s/shorthand/%s/short' % (PID, cfg)

    def ev3():
        fk = 'test_util::short'
        I0 = Interp(F)
        st = I0.new_state()
        args = entry_args(I0, st, F.fns[fk], [])
        I, outs = run_ctor(F, fk, args, st)
        want = [VS(0x80, 0xFF), VS(0, 127), VS(0, 127)]
        status, why = 'proved', ''
        acc = [VS.of([]), VS.of([]), VS.of([])]
        for o in outs:
            vs = [vs_of(a.term, o.st.cons) for a in args]
            if o.kind == 'return':
                tup = o.value.fields[0] if isinstance(o.value, Ag) and o.value.path == H.RAW else None
                ok = all(v.subset(w) for v, w in zip(vs, want)) and tup is not None \
                    and [H.scalar_of(x).term for x in tup.fields] == [a.term for a in args]
                acc = [x.join(v) for x, v in zip(acc, vs)]
                if not ok:
                    status, why = 'refuted', 'returns %r for arguments in %r' % (o.value, vs)
            elif o.kind == 'panic':
                if all(not v.meet(w).empty() for v, w in zip(vs, want)):
                    status, why = 'refuted', 'panics for valid arguments %r' % (vs,)
            else:
                status, why = 'unproven', o.kind
        if status == 'proved' and acc != want:
            status, why = 'refuted', 'accepted arguments %r, expected %r' % (acc, want)
        chk.ob(key, 'shorthand', status, subject=fn_subject(F, fk), expected='Raw(status,d1,d2) for status>=0x80 and 7-bit data', found=sorted(set(o.kind for o in outs)), why=why)
    guarded(chk, key, 'shorthand', ev3)


def run(tier, cmd):
    chk = Check(PID, tier, 'other',
                'abstract interpretation of each ShortMessageFactory constructor for an abstract factory; the bytes reaching '
                'from_bytes_unchecked are compared bit by bit (provenance vectors over the argument tokens) with the constructor oracle; '
                'generic constructors per message type; test_util shorthands by outcome summary (panic exactly out of range)',
                cmd, trusted_base=TRUSTED, assumptions=['arguments of newtype type are in range (C04)'],
                explanation='Decides, for every factory that inherits the trait defaults (no in-crate factory overrides them, checked): each named '
                            'constructor hands (type code | channel, data1, data2) to the factory with arguments placed as the MIDI table says, '
                            '14-bit arguments split low->data1 / high->data2, unused bytes 0; generic constructors panic exactly for a wrong '
                            'category; shorthands panic exactly for out-of-range arguments and otherwise build the same bytes. That accessors then '
                            'return the arguments, and the structured view, follow by composition with C02/C01 (same byte-level oracle), which is '
                            'argued, not re-interpreted, here.')
    Fs = load_configs(chk, ['K1', 'K2'], required=('K1',))
    for cfg, F in sorted(Fs.items()):
        guarded(chk, '%s/named/%s' % (PID, cfg), 'constructor table', lambda F=F: named_constructors(chk, F))
        guarded(chk, '%s/generic/%s' % (PID, cfg), 'generic constructor', lambda F=F: generic_constructors(chk, F))
        guarded(chk, '%s/shorthand/%s' % (PID, cfg), 'shorthand', lambda F=F: shorthands(chk, F))
        # defaults are what every in-crate factory runs
        tr = F.traits.get(H.SMF, {'items': []})
        defaults = {it['name'] for it in tr['items'] if it['has_default']}
        for ty, im in c01.factory_types(F):
            # (from_bytes / from_other are not constructors of this property: C01 interprets their overrides)
            ov = [it['name'] for it in im['items'] if it['name'] in defaults and it['name'] not in ('from_bytes', 'from_other')]
            chk.ob('%s/factory-overrides/%s/%s' % (PID, cfg, ty['path'].split('::')[-1]), 'override inventory',
                   'proved' if not ov else 'unproven', subject={'at': im['span']['at']}, found=ov,
                   why='overriding constructor bodies are not covered' if ov else '', nontrivial=False)
    return chk.finish()
