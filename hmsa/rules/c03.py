"""C03 — all ShortMessage implementations are observationally equivalent.

  overrides        every derived accessor is a trait default; each in-crate override gets an
                   equivalence obligation against the default body (found automatically)
  structured       per status class and method: the method evaluated on the StructuredShortMessage
                   built from (status, d1, d2) equals the same oracle entry as for the raw / abstract
                   implementor (C02)  =>  same answers for all three representations
  non-interference per class: no default method's result or path condition depends on an
                   information-free data byte / the reserved quarter-frame bit
  conversions      to_other / from_other hand self.to_bytes() unchanged to the target factory;
                   to_bytes default is the getter triple
Declined: an implementor that overrides a default inconsistently is outside the source.
"""
from .. import terms as T
from ..terms import VS, C, vs_of
from ..interp import Interp, Sc, Ag, Un, Rf
from ..models import find_impl
from ..report import Check, fn_subject
from ..spec import midi
from .. import harness as H
from .common import load_configs, guarded, TRUSTED
from . import c01, c02

PID = 'C03'
EXEMPT = ('to_bytes', 'to_other', 'data_byte_1', 'data_byte_2', 'status_byte')


def sm_impls(F):
    return [(im['self'], im) for im in F.impls if im.get('trait') == H.SM and im['self']['k'] == 'adt']


def default_methods(F):
    tr = F.traits.get(H.SM, {'items': []})
    return [it for it in tr['items'] if it['kind'] == 'AssocFn']


def overrides_clause(chk, F, tier):
    cfg = F.cfg
    defaults = {it['name']: it['key'] for it in default_methods(F) if it['has_default']}
    chk.floor('default_methods', 17, len(defaults))
    impls = sm_impls(F)
    chk.floor('shortmessage_impls', 2, len(impls))
    for ty, im in impls:
        short = ty['path'].split('::')[-1]
        ov = [it for it in im['items'] if it['name'] in defaults]
        chk.ob('%s/override-inventory/%s/%s' % (PID, cfg, short), 'override inventory', 'proved',
               subject={'at': im['span']['at'], 'config': cfg}, found=[it['name'] for it in ov], nontrivial=False)
        for it in ov:
            key = '%s/override-equivalence/%s/%s/%s' % (PID, cfg, short, it['name'])

            def ev(ty=ty, it=it, key=key, short=short):
                gen = inputs_for(F, ty, tier)
                if gen is None:
                    return chk.ob(key, 'override equivalence', 'unproven', subject=fn_subject(F, it['key']),
                                  why='no input generator for implementor %s' % short)
                status, why, n = 'proved', '', 0
                for label, selfv, cons in gen:
                    st = c01.fresh_state(F, cons)
                    I1, o1 = c01.call_on(F, it['key'], selfv, [], st)
                    I2, o2 = c01.call_on(F, defaults[it['name']], selfv, [ty], st)
                    r1 = [o for o in o1 if o.kind == 'return']
                    r2 = [o for o in o2 if o.kind == 'return']
                    if len(r1) != len(o1) or len(r2) != len(o2) or not r1 or not r2:
                        status, why = 'unproven', 'non-returning outcome for %s' % label
                        continue
                    for a in r1:
                        for b in r2:
                            n += 1
                            cons2 = dict(a.st.cons)
                            feasible = all(T.refine(k, v, cons2) for k, v in b.st.cons.items() if k[0] == 't')
                            if feasible and not H.values_equal(a.value, b.value, cons2):
                                status, why = 'refuted', 'for %s the override returns %r, the default %r' % (label, a.value, b.value)
                chk.ob(key, 'override equivalence', status, subject=fn_subject(F, it['key']),
                       expected='override == trait default on every input', found='%d comparisons' % n, why=why)
            guarded(chk, key, 'override equivalence', ev)


def inputs_for(F, ty, tier):
    if ty['path'] == H.RAW:
        rawv = Ag(H.RAW, 0, [c01.bytes_tuple()])
        return [(cname, rawv, cons) for cname, tname, cons in c02.classes('quick')]
    if ty['path'] == H.STRUCT:
        return c01.structured_values(F)
    return None


def structured_clause(chk, F, tier):
    """accessor oracle on the structured form of (status, d1, d2)"""
    cfg = F.cfg
    sty = H.adt_ty(H.STRUCT)
    mk = c01.method_key(F, H.SMF, 'from_bytes_unchecked', sty)
    fns = set()
    for cname, tname, cons in c02.classes(tier):
        st = c01.fresh_state(F, cons)
        I, outs = c01.call(F, mk[0], [c01.bytes_tuple()], mk[1], st)
        for method in c02.METHODS:
            key = '%s/accessor/%s/structured/%s/%s' % (PID, cfg, method, cname)

            def ev(method=method, cname=cname, tname=tname, cons=cons, outs=outs, key=key):
                mname = 'type' if method == 'type' else method
                m = c01.method_key(F, H.SM, mname, sty)
                exp = c02.expectation(F, method, tname, cons, H.STATUS, H.D1, H.D2)
                status, why, found = 'proved', '', []
                for o in outs:
                    if o.kind != 'return':
                        status, why = 'unproven', 'from_bytes_unchecked: %s' % o.kind
                        continue
                    I2, outs2 = c01.call_on(F, m[0], o.value, m[1], o.st)
                    fns.update(I2.fns_entered)
                    for o2 in outs2:
                        if o2.kind != 'return':
                            status, why = ('refuted' if o2.kind == 'panic' else 'unproven'), '%s outcome (%s)' % (o2.kind, o2.why)
                            continue
                        ok, txt = c02.matches(F, o2.value, exp, o2.st.cons, tname, H.STATUS, H.D1, H.D2)
                        if len(found) < 2:
                            found.append(repr(o2.value))
                        if not ok:
                            status = 'refuted'
                            why = 'structured form of (status in %r, d1 in %r, d2 in %r): %s' % (
                                vs_of(H.STATUS, o2.st.cons), vs_of(H.D1, o2.st.cons), vs_of(H.D2, o2.st.cons), txt)
                chk.ob(key, 'accessor oracle on the structured form', status, subject=fn_subject(F, m[0]),
                       expected=repr(exp[:2]), found=found, why=why)
            guarded(chk, key, 'accessor oracle on the structured form', ev)
    chk.extra.setdefault('functions_interpreted', {})[cfg] = len(fns)


def non_interference_clause(chk, F):
    """taint: information-free bytes never reach a result or a branch"""
    cfg = F.cfg
    methods = [it for it in default_methods(F) if it['has_default'] and it['name'] not in EXEMPT]
    for cname, tname, cons0 in c02.classes('quick'):
        t = midi.TYPE[tname]
        free = []
        if not t[5]:
            free.append(H.D1)
        if not t[6]:
            free.append(H.D2)
        sub = []
        if tname == 'TimeCodeQuarterFrame':
            c7 = dict(cons0)
            c7[H.D1] = VS(0x70, 0x7F)
            sub.append((cname + '.kind7', c7, 'bit3'))
        if free:
            sub.append((cname, cons0, 'bytes'))
        for label, cons, mode in sub:
            for it in methods:
                key = '%s/non-interference/%s/%s/%s' % (PID, cfg, it['name'], label)

                def ev(it=it, label=label, cons=cons, mode=mode, free=free, key=key):
                    I, outs = H.run_method(F, it['key'], 'abstract', cons)
                    status, why = 'proved', ''
                    # paths may split on an information-free part as long as the paths that differ only in it give the same
                    # result: per result, the union of what the paths allow for that part must be everything
                    by_result = {}
                    for o in outs:
                        if o.kind == 'return':
                            from ..interp import val_key
                            ent = by_result.setdefault(val_key(o.value), {'d1': VS.of([]), 'free': {}})
                            ent['d1'] = ent['d1'].join(vs_of(H.D1, o.st.cons))
                            for tok in free:
                                ent['free'][tok] = ent['free'].get(tok, VS.of([])).join(vs_of(tok, o.st.cons))
                    for o in outs:
                        if o.kind != 'return':
                            status, why = ('refuted' if o.kind == 'panic' else 'unproven'), '%s outcome' % o.kind
                            continue
                        toks = value_tokens(o.value)
                        if mode == 'bytes':
                            for tok in free:
                                if tok in toks:
                                    status, why = 'refuted', 'result %r depends on the information-free %s' % (o.value, tok[1])
                                from ..interp import val_key
                                allowed = by_result[val_key(o.value)]['free'][tok]
                                if not cons[tok].subset(allowed):
                                    status, why = 'refuted', 'the result depends on the information-free %s through a branch (this result only for %s in %r)' % (tok[1], tok[1], allowed)
                                for p in o.st.preds:
                                    if tok[1] in repr(p):
                                        status, why = 'refuted', 'a recorded branch condition mentions %s' % tok[1]
                        else:
                            for s in value_scalars(o.value):
                                b = T.bits_of(s.term, o.st.cons, 16)
                                if b is None or any(x == T.UNK or x == ('b', H.D1, 3) for x in b):
                                    status, why = 'refuted', 'result %s depends on the reserved bit 3 of a last quarter frame' % H.describe(s, o.st.cons)
                            from ..interp import val_key
                            v = by_result[val_key(o.value)]['d1']
                            vals = v.s if v.s is not None else (set(range(v.lo, v.hi + 1)) if v.hi - v.lo < 1024 else None)
                            if vals is None or any((x ^ 8) not in vals for x in vals):
                                status, why = 'refuted', 'the result depends on the reserved bit through a branch (this result only for d1 in %r)' % v
                    chk.ob(key, 'non-interference', status, subject=fn_subject(F, it['key']),
                           expected='independent of %s' % ([f[1] for f in free] if mode == 'bytes' else 'd1 bit 3'), found=[repr(o.value) for o in outs][:2], why=why)
                guarded(chk, key, 'non-interference', ev)


def value_scalars(v, acc=None):
    acc = [] if acc is None else acc
    if isinstance(v, Sc):
        acc.append(v)
    elif isinstance(v, Ag):
        for f in v.fields:
            value_scalars(f, acc)
    return acc


def value_tokens(v):
    toks = set()
    for s in value_scalars(v):
        toks |= T.tokens_of(s.term)
    return toks


def conversions_clause(chk, F):
    cfg = F.cfg
    key = '%s/conversions/%s/to_bytes' % (PID, cfg)

    def ev1():
        I, outs = H.run_method(F, H.SM + '::to_bytes', 'abstract', H.base_cons())
        ok = len(outs) == 1 and outs[0].kind == 'return' and H.values_equal(outs[0].value, c01.bytes_tuple(), outs[0].st.cons)
        chk.ob(key, 'conversion passes bytes unchanged', 'proved' if ok else 'refuted', subject=fn_subject(F, H.SM + '::to_bytes'),
               expected='(status_byte(), data_byte_1(), data_byte_2())', found=[repr(o.value) for o in outs])
    guarded(chk, key, 'conversion passes bytes unchanged', ev1)
    key2 = '%s/conversions/%s/to_other' % (PID, cfg)

    def ev2():
        I, outs = H.run_method(F, H.SM + '::to_other', 'abstract', H.base_cons(), subst=[H.param('Self', 0), H.param('O', 1)])
        ok = len(outs) == 1 and outs[0].kind == 'return' and isinstance(outs[0].value, Ag) and outs[0].value.path == H.FBU \
            and H.values_equal(outs[0].value.fields[0], c01.bytes_tuple(), outs[0].st.cons)
        chk.ob(key2, 'conversion passes bytes unchanged', 'proved' if ok else 'refuted', subject=fn_subject(F, H.SM + '::to_other'),
               expected='O::from_bytes_unchecked(self.to_bytes())', found=[repr(o.value) for o in outs])
    guarded(chk, key2, 'conversion passes bytes unchanged', ev2)
    key3 = '%s/conversions/%s/from_other' % (PID, cfg)

    def ev3():
        fk = H.SMF + '::from_other'
        hooks = {}
        hooks.update(H.msg_hooks())
        hooks.update(H.fbu_hook())
        I = Interp(F, abstract_methods=hooks)
        st = I.new_state()
        st.cons.update(H.base_cons())
        st.root().locals['msg'] = Sc(T.T('msg', 'opaque'), H.param('impl ShortMessage', 1))
        outs = I.run(fk, [Rf(0, 'msg', ())], [H.param('Self', 0), H.param('impl ShortMessage', 1)], st)
        ok = len(outs) == 1 and outs[0].kind == 'return' and isinstance(outs[0].value, Ag) and outs[0].value.path == H.FBU \
            and H.values_equal(outs[0].value.fields[0], c01.bytes_tuple(), outs[0].st.cons)
        chk.ob(key3, 'conversion passes bytes unchanged', 'proved' if ok else 'refuted', subject=fn_subject(F, fk),
               expected='Self::from_bytes_unchecked(msg.to_bytes())', found=[repr(o.value) for o in outs])
    guarded(chk, key3, 'conversion passes bytes unchanged', ev3)
    # concrete pairs: Raw <-> Structured commute with the getters (bytes of the converted message)
    rty, sty = H.adt_ty(H.RAW), H.adt_ty(H.STRUCT)
    key4 = '%s/conversions/%s/raw-to-structured-to-raw' % (PID, cfg)

    def ev4():
        status, why, n = 'proved', '', 0
        to_other_r = c01.method_key(F, H.SM, 'to_other', rty)
        to_other_s = c01.method_key(F, H.SM, 'to_other', sty)
        for cname, tname, cons in c02.classes('quick'):
            st = c01.fresh_state(F, cons)
            rawv = Ag(H.RAW, 0, [c01.bytes_tuple()])
            I, outs = c01.call_on(F, to_other_r[0], rawv, [rty, sty], st)
            for o in outs:
                if o.kind != 'return':
                    status, why = 'unproven', '%s: to_other::<Structured> %s' % (cname, o.kind)
                    continue
                I2, outs2 = c01.call_on(F, to_other_s[0], o.value, [sty, rty], o.st)
                for o2 in outs2:
                    n += 1
                    if o2.kind != 'return':
                        status, why = 'unproven', o2.kind
                        continue
                    ws, w1, w2 = c01.canonical(tname, o2.st.cons)
                    tup = o2.value.fields[0] if isinstance(o2.value, Ag) and o2.value.path == H.RAW else None
                    if tup is None:
                        status, why = 'refuted', 'not a RawShortMessage: %r' % (o2.value,)
                        continue
                    got = [H.scalar_of(x) for x in tup.fields]
                    ok = all(g is not None for g in got) and H.same(got[0].term, ws, o2.st.cons) and H.same(got[2].term, w2, o2.st.cons)
                    if tname != 'TimeCodeQuarterFrame':
                        ok = ok and H.same(got[1].term, w1, o2.st.cons)
                    if not ok:
                        status, why = 'refuted', '%s: raw -> structured -> raw gives %r' % (cname, o2.value)
        chk.ob(key4, 'conversion passes bytes unchanged', status, expected='raw bytes with only information-free parts zeroed',
               found='%d paths' % n, why=why)
    guarded(chk, key4, 'conversion passes bytes unchanged', ev4)


def run(tier, cmd):
    chk = Check(PID, tier, 'other',
                'override inventory over the impl table with an equivalence obligation per override; accessor oracle evaluated on the '
                'structured form per status class; taint (non-interference) of information-free bytes over all default methods; '
                'token identity of the bytes handed from to_other/from_other to the target factory',
                cmd, trusted_base=TRUSTED,
                assumptions=['data bytes are 7-bit and newtype fields in range (C04); status byte valid'],
                explanation='Decides: (1) every ShortMessage default method gives, on the StructuredShortMessage converted from (status,d1,d2), '
                            'the same oracle answer as on RawShortMessage and on any implementor providing only the three getters (C02), for all '
                            'valid triples via the class partition; (2) overrides in the crate are equivalent to the defaults they replace; '
                            '(3) information-free bytes cannot influence any accessor (so their zeroing is unobservable except through to_bytes / '
                            'data_byte_* / to_other, which the property exempts); (4) conversions pass the bytes unchanged. Not decided: a '
                            'third-party implementor that overrides to_bytes or another default inconsistently (outside the repository).')
    Fs = load_configs(chk, ['K1', 'K2'], required=('K1',))
    for cfg, F in sorted(Fs.items()):
        guarded(chk, '%s/overrides/%s' % (PID, cfg), 'override inventory', lambda F=F: overrides_clause(chk, F, tier))
        guarded(chk, '%s/structured/%s' % (PID, cfg), 'accessor oracle on the structured form', lambda F=F: structured_clause(chk, F, tier))
        guarded(chk, '%s/non-interference/%s' % (PID, cfg), 'non-interference', lambda F=F: non_interference_clause(chk, F))
        guarded(chk, '%s/conversions/%s' % (PID, cfg), 'conversion passes bytes unchanged', lambda F=F: conversions_clause(chk, F))
        # getter-triple clauses shared with C01
        c01.raw_clause(chk, F)
        guarded(chk, '%s/structured-bytes/%s' % (PID, cfg), 'canonical bytes per status class', lambda F=F: c01.structured_clause(chk, F, 'quick'))
    return chk.finish()
