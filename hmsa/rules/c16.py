"""C16 — non-contributing messages are transparent; the predicates name the contributors.

  identity rows   in all three extracted automata, every reachable typestate x every non-contributing
                  class (non-CC, CC outside the contributing set) reports nothing and leaves the store
                  *structurally identical* (same typestate, same tokens in the same slots)
  predicates      outcome summaries over 0..127 of the three ControllerNumber predicates; *_LSB constants
  siblings        the contributing controller set read off each scanner's dispatch (union over the
                  reachable typestates of the controller numbers whose row is not the identity) equals
                  the true-set of the corresponding predicate
"""
from .. import terms as T, automata as A
from ..terms import VS, C, vs_of
from ..interp import Interp, Sc, Ag, Un, val_key
from ..entry import run_fn
from ..report import Check, fn_subject
from .. import harness as H
from .common import load_configs, guarded, TRUSTED
from . import scanners

PID = 'C16'
CN = 'controller_number_mod::ControllerNumber'


def in_ranges(x, ranges):
    return any(lo <= x <= hi for lo, hi in ranges)


def identity_rows(chk, F, which):
    cfg = F.cfg
    model, spec, P0, allp = scanners.product(F, which)
    rank = {'proved': 0, 'unproven': 1, 'refuted': 2}
    merged, order = {}, []
    for k in sorted(allp):
        P = allp[k]
        for key in P.order:
            cs, ss, cons, label = P.pairs[key]
            shape = A.spec_shape(ss)
            for cname, kind, rng in spec.classes:
                if kind == 'noncc':
                    pass
                elif kind == 'cc' and not any(in_ranges(x, spec.contributing) for x in range(rng[0], rng[1] + 1)):
                    pass
                else:
                    continue
                rows = [r for r in P.rows if r.pair_key == key and r.cname == cname]
                status, why = 'proved', ''
                if not rows:
                    status, why = 'unproven', 'no outcome'
                for r in rows:
                    if r.outcome_kind != 'return':
                        status, why = ('refuted' if r.outcome_kind == 'panic' else 'unproven'), '%s (%s)' % (r.outcome_kind, r.why)
                    elif r.outputs:
                        status, why = 'refuted', 'a non-contributing message reports %d message(s)' % len(r.outputs)
                    elif r.code_out is None:
                        status, why = 'unproven', 'state after the call not determined'
                    elif not r.identity:
                        status, why = 'refuted', 'a non-contributing message changes the state: %s -> %s' % (A.typestate_label(F, r.code_in), A.typestate_label(F, r.code_out))
                if why:
                    why = 'channel %d: %s' % (k, why)
                ok = (shape, cname)
                cur = (status, why, [scanners.describe_row(F, r) for r in rows[:2]])
                if ok not in merged:
                    order.append(ok)
                    merged[ok] = cur
                elif rank[status] > rank[merged[ok][0]]:
                    merged[ok] = cur
    for shape, cname in order:
        status, why, found = merged[(shape, cname)]
        chk.ob('%s/transparent/%s/%s/%s/%s' % (PID, cfg, which, shape, cname), 'identity row', status,
               subject=fn_subject(F, model.sub_key('feed')), expected='reports nothing, store structurally identical (all 16 channels)',
               found=found, why=why)
    return len(order)


def true_set(F, fk):
    """controller numbers for which a bool predicate of ControllerNumber holds -> (VS, problems)"""
    I, outs, args = run_fn(F, fk)
    selfv = I.deref_all(outs[0].st, args[0])
    tok = H.scalar_of(selfv).term
    ts = VS.of([])
    for o in outs:
        if o.kind != 'return' or not isinstance(o.value, Sc):
            return None, '%s outcome' % o.kind
        c = dict(o.st.cons)
        if T.refine(o.value.term, VS.one(1), c):
            ts = ts.join(vs_of(tok, c))
        c0 = dict(o.st.cons)
        if T.refine(o.value.term, VS.one(0), c0) and T.refine(o.value.term, VS.one(1), dict(o.st.cons)):
            # both feasible on one path: the set refinement must separate them
            if not vs_of(tok, c).meet(vs_of(tok, c0)).empty():
                return None, 'predicate result not determined by the controller number'
    return ts, ''


def predicates(chk, F):
    cfg = F.cfg
    res = {}
    for name, want in (('can_be_part_of_14_bit_control_change_message', VS(0, 63)),
                       ('is_parameter_number_message_controller_number', VS.of([6, 38, 96, 97, 98, 99, 100, 101]))):
        fk = CN + '::' + name
        key = '%s/predicate/%s/%s' % (PID, cfg, name)

        def ev(fk=fk, key=key, want=want, name=name):
            if fk not in F.fns:
                return chk.ob(key, 'predicate true-set', 'unproven', why='predicate not found')
            ts, prob = true_set(F, fk)
            res[name] = ts
            ok = ts is not None and ts == want
            chk.ob(key, 'predicate true-set', 'proved' if ok else ('unproven' if ts is None else 'refuted'), subject=fn_subject(F, fk),
                   expected=repr(want), found=repr(ts), why=prob or ('' if ok else 'holds for %r' % ts))
        guarded(chk, key, 'predicate true-set', ev)
    key = '%s/predicate/%s/corresponding_14_bit_lsb_controller_number' % (PID, cfg)

    def ev2():
        fk = CN + '::corresponding_14_bit_lsb_controller_number'
        I, outs, args = run_fn(F, fk)
        tok = H.scalar_of(I.deref_all(outs[0].st, args[0])).term
        some, none = VS.of([]), VS.of([])
        status, why = 'proved', ''
        for o in outs:
            v = vs_of(tok, o.st.cons)
            p = H.opt_payload(o.value) if o.kind == 'return' else None
            if p is None:
                status, why = ('refuted' if o.kind == 'panic' else 'unproven'), '%s outcome for %r' % (o.kind, v)
            elif p[0] == 'none':
                none = none.join(v)
            else:
                some = some.join(v)
                s = H.scalar_of(p[1])
                if s is None or not H.same(s.term, T.mk_op('Add', tok, C(32), None, o.st.cons), o.st.cons):
                    status, why = 'refuted', 'returns %s for n in %r' % (H.describe(p[1], o.st.cons), v)
        if status == 'proved' and (some != VS(0, 31) or none != VS(32, 127)):
            status, why = 'refuted', 'Some for %r, None for %r' % (some, none)
        chk.ob(key, 'predicate true-set', status, subject=fn_subject(F, fk), expected='Some(n + 32) exactly for 0..31', found='Some: %r' % some, why=why)
    guarded(chk, key, 'predicate true-set', ev2)
    # *_LSB constants
    consts = {}
    for k, f in F.fns.items():
        # the public `controller_numbers` module, wherever the file that declares it lives
        if f['kind'] == 'Const' and len(k.split('::')) >= 2 and k.split('::')[-2] == 'controller_numbers':
            I, outs, args = run_fn(F, k)
            s = H.scalar_of(outs[0].value) if len(outs) == 1 and outs[0].kind == 'return' else None
            if s is not None and s.term[0] == 'c':
                consts[k.split('::')[-1]] = s.term[1]
    chk.floor('controller_number_constants', 66, len(consts))
    npairs = 0
    for name, v in sorted(consts.items()):
        if name.endswith('_LSB') and name[:-4] in consts and consts[name[:-4]] < 32:
            npairs += 1
            base = consts[name[:-4]]
            chk.ob('%s/lsb-constant/%s/%s' % (PID, cfg, name), 'constant table', 'proved' if v == base + 32 else 'refuted',
                   expected='%s + 32 = %d' % (name[:-4], base + 32), found=v, nontrivial=False)
    chk.floor('lsb_constant_pairs', 16, npairs)
    for name, v in sorted(consts.items()):
        if not 0 <= v <= 127:
            chk.ob('%s/constant-range/%s/%s' % (PID, cfg, name), 'constant table', 'refuted', expected='0..127', found=v, nontrivial=False)
    return res


def dispatch_set(F, which):
    """controller numbers whose CC row is not the identity in some reachable typestate"""
    model, spec, P, allp = scanners.product(F, which)
    contributing = VS.of([])
    for key in P.order:
        cs, ss, cons, label = P.pairs[key]
        c0 = dict(cons)
        c0.update({A.CUR_STATUS: VS.one(0xB0), A.CUR_D1: VS(0, 127), A.CUR_D2: VS(0, 127)})
        I, outs = A.run_step(F, model, 'cc', cs, c0, k=0)
        for o in outs:
            v = vs_of(A.CUR_D1, o.st.cons)
            if o.kind != 'return':
                contributing = contributing.join(v)
                continue
            outs_m = A.extract_outputs(F, P.roles, o.value, o.st)
            same = o.new_state is not None and val_key(o.new_state) == val_key(cs)
            if outs_m or outs_m is None or not same:
                contributing = contributing.join(v)
    return contributing


def siblings(chk, F, preds):
    cfg = F.cfg
    for which, pname in (('cc14', 'can_be_part_of_14_bit_control_change_message'), ('pn', 'is_parameter_number_message_controller_number'),
                         ('polling', 'is_parameter_number_message_controller_number')):
        if which == 'polling' and 'std' not in F.features:
            continue
        key = '%s/sibling/%s/%s' % (PID, cfg, which)

        def ev(which=which, pname=pname, key=key):
            ds = dispatch_set(F, which)
            want = preds.get(pname)
            ok = want is not None and ds == want
            chk.ob(key, 'dispatch set equals predicate true-set', 'proved' if ok else 'refuted',
                   expected='%s holds for %r' % (pname, want), found='scanner reacts to controller numbers %r' % ds,
                   why='' if ok else 'the scanner and the predicate disagree on which controller numbers contribute')
        guarded(chk, key, 'dispatch set equals predicate true-set', ev)


def run(tier, cmd):
    chk = Check(PID, tier, 'proof',
                'identity rows of the three extracted automata (structural identity of the abstract store), outcome summaries of the '
                'ControllerNumber predicates over 0..127, constant table, and the sibling cross-check dispatch set = predicate true-set',
                cmd, trusted_base=TRUSTED, assumptions=['messages satisfy the ShortMessage contract'],
                explanation='')
    Fs = load_configs(chk, ['K1', 'K2'], required=('K1',))
    for cfg, F in sorted(Fs.items()):
        n = 0
        for which in ('cc14', 'pn', 'polling'):
            if which == 'polling' and 'std' not in F.features:
                continue
            r = guarded(chk, '%s/transparent/%s/%s' % (PID, cfg, which), 'identity row', lambda F=F, which=which: identity_rows(chk, F, which))
            n += r or 0
        if cfg == 'K1':
            chk.floor('identity_cells_K1', 180, n)
        preds = guarded(chk, '%s/predicates/%s' % (PID, cfg), 'predicate true-set', lambda F=F: predicates(chk, F)) or {}
        guarded(chk, '%s/siblings/%s' % (PID, cfg), 'dispatch set equals predicate true-set', lambda F=F: siblings(chk, F, preds))
    return chk.finish()
