"""C02 — classification and field accessors follow the MIDI 1.0 status table.

Every default method of `ShortMessage` is interpreted for an *abstract implementor* (opaque byte
getters) once per spec class; each abstract result must be definite and equal to the oracle entry
(spec/midi.py).  Classes: the 23 status classes, split where the oracle distinguishes
(Control Change: controller 0..119 / 120..127; Note On: velocity 0 / 1..127).
"""
from .. import terms as T
from ..terms import VS, C, vs_of
from ..interp import Sc, Ag, Un
from ..entry import run_fn
from ..models import find_impl
from ..report import Check, fn_subject
from ..spec import midi
from .. import harness as H
from .common import load_configs, guarded, TRUSTED

PID = 'C02'
SMT = 'short_message::ShortMessageType'
MST = 'short_message::MessageSuperType'
FST = 'short_message::FuzzyMessageSuperType'
MMC = 'short_message::MessageMainCategory'
METHODS = ['type', 'super_type', 'main_category', 'channel', 'key_number', 'velocity', 'controller_number',
           'control_value', 'program_number', 'pressure_amount', 'pitch_bend_value', 'is_note_on', 'is_note_off',
           'is_note', 'to_structured']


def classes(tier):
    """[(class name, type, cons dict)]"""
    out = []
    for (name, lo, hi, has_ch, sup, c1, c2) in midi.TYPES:
        spans = [(lo, hi, '')]
        if tier == 'thorough' and has_ch:
            spans = [(lo + ch, lo + ch, '.ch%d' % ch) for ch in range(16)]
        for slo, shi, sfx in spans:
            base = H.base_cons(VS(slo, shi))
            if name == 'ControlChange':
                for dlo, dhi in ((0, 119), (120, 127)):
                    c = dict(base)
                    c[H.D1] = VS(dlo, dhi)
                    out.append(('%s%s.d1=%d..%d' % (name, sfx, dlo, dhi), name, c))
            elif name == 'NoteOn':
                for dlo, dhi in ((0, 0), (1, 127)):
                    c = dict(base)
                    c[H.D2] = VS(dlo, dhi)
                    out.append(('%s%s.d2=%d..%d' % (name, sfx, dlo, dhi), name, c))
            else:
                out.append((name + sfx, name, base))
    return out


def super_of(tname, cons):
    sup = midi.TYPE[tname][4]
    if sup is not None:
        return sup
    d1 = cons[H.D1]
    lo, hi = midi.CHANNEL_MODE_CONTROLLERS
    if d1.subset(VS(lo, hi)):
        return 'ChannelMode'
    if d1.meet(VS(lo, hi)).empty():
        return 'ChannelVoice'
    return None


def expectation(F, method, tname, cons, st, d1, d2):
    """oracle for (method, class) as a comparable description"""
    t = midi.TYPE[tname]
    has_ch = t[3]
    if method == 'type':
        return ('enum', SMT, tname)
    if method == 'super_type':
        return ('enum', MST, super_of(tname, cons))
    if method == 'main_category':
        return ('enum', MMC, 'Channel' if has_ch else 'System')
    if method == 'channel':
        return ('some', 'Channel', H.t_low_nibble(st, cons)) if has_ch else ('none',)
    if method in midi.ACCESSORS:
        src = midi.ACCESSORS[method].get(tname)
        if src is None:
            return ('none',)
        term = {'d1': d1, 'd2': d2}.get(src)
        if src == '14':
            term = H.t_14(d1, d2, cons)
        return ('some', midi.ACCESSOR_TY[method], term)
    if method == 'is_note':
        return ('bool', int(tname in ('NoteOn', 'NoteOff')))
    if method == 'is_note_on':
        if tname != 'NoteOn':
            return ('bool', 0)
        v = cons[d2] if d2 in cons else VS(0, 127)
        return ('bool', 1) if v.lo > 0 else ('bool', 0) if v.hi == 0 else ('bool', None)
    if method == 'is_note_off':
        if tname == 'NoteOff':
            return ('bool', 1)
        if tname != 'NoteOn':
            return ('bool', 0)
        v = cons[d2] if d2 in cons else VS(0, 127)
        return ('bool', 0) if v.lo > 0 else ('bool', 1) if v.hi == 0 else ('bool', None)
    if method == 'to_structured':
        return ('struct', tname)
    raise KeyError(method)


def structured_matches(F, v, tname, cons, st, d1, d2):
    """does the StructuredShortMessage value `v` equal the oracle's structured form? -> (ok, text)"""
    if not isinstance(v, Ag) or v.path != H.STRUCT:
        return False, 'not a StructuredShortMessage: %r' % (v,)
    a = F.adts[H.STRUCT]
    vn = a['variants'][v.variant]['name']
    if vn != tname:
        return False, 'variant %s' % vn
    want = midi.STRUCTURED[tname]
    fields = a['variants'][v.variant]['fields']
    if len(fields) != len(want):
        return False, 'variant %s has %d fields, oracle has %d' % (vn, len(fields), len(want))
    for (fname, src) in want:
        idx = [i for i, f in enumerate(fields) if f['name'] == fname]
        if not idx:
            return False, 'field %s missing' % fname
        fv = v.fields[idx[0]]
        if src == 'frame':
            ok, txt = frame_matches(F, fv, d1, cons)
            if not ok:
                return False, txt
            continue
        term = {'ch': H.t_low_nibble(st, cons), 'd1': d1, 'd2': d2}.get(src)
        if src == '14':
            term = H.t_14(d1, d2, cons)
        s = H.scalar_of(fv)
        if s is None or not H.same(s.term, term, cons):
            return False, 'field %s is %s, expected %s' % (fname, H.describe(fv, cons), T.bits_str(T.bits_of(term, cons, 16)))
    return True, vn


def frame_matches(F, fv, d1, cons):
    """TimeCodeQuarterFrame value equals the decoding of data byte 1 (0kkk nnnn)"""
    TQ = 'short_message::TimeCodeQuarterFrame'
    if not isinstance(fv, Ag) or fv.path != TQ:
        return False, 'not a TimeCodeQuarterFrame: %r' % (fv,)
    kinds = vs_of(T.mk_op('Shr', d1, C(4), None, cons), cons)
    if not kinds.single():
        return False, 'quarter frame kind not determined on this path (kinds %r)' % kinds
    kind = kinds.lo
    a = F.adts[TQ]
    vn = a['variants'][fv.variant]['name']
    if vn != midi.QUARTER_FRAME_KINDS[kind]:
        return False, 'frame kind %d decoded as %s' % (kind, vn)
    if kind < 7:
        s = H.scalar_of(fv.fields[0])
        want = T.mk_op('BitAnd', d1, C(15), None, cons)
        if s is None or not H.same(s.term, want, cons):
            return False, 'nibble is %s' % H.describe(fv.fields[0], cons)
        return True, vn
    fields = a['variants'][fv.variant]['fields']
    ib = [i for i, f in enumerate(fields) if f['name'] == 'hours_count_ms_bit'][0]
    it = [i for i, f in enumerate(fields) if f['name'] == 'time_code_type'][0]
    b = fv.fields[ib]
    want_b = T.mk_op('BitAnd', d1, C(1), None, cons)
    if not isinstance(b, Sc) or not H.same(b.term, want_b, cons):
        bb = T.bits_of(b.term, cons, 8) if isinstance(b, Sc) else None
        if bb != T.bits_of(want_b, cons, 8):
            return False, 'hours_count_ms_bit is %r' % (b,)
    tt = fv.fields[it]
    tv = vs_of(T.mk_op('BitAnd', T.mk_op('Shr', d1, C(1), None, cons), C(3), None, cons), cons)
    if not isinstance(tt, Ag) or not tv.single():
        return False, 'time code type not determined: %r / %r' % (tt, tv)
    tn = F.adts[tt.path]['variants'][tt.variant]['name']
    if tn != midi.TIME_CODE_TYPES[tv.lo]:
        return False, 'time code type bits %d decoded as %s' % (tv.lo, tn)
    return True, vn


def matches(F, val, exp, cons, tname, st, d1, d2):
    kind = exp[0]
    if kind == 'none':
        p = H.opt_payload(val)
        return (p == ('none',)), 'got %r' % (val,)
    if kind == 'some':
        p = H.opt_payload(val)
        if not p or p[0] != 'some':
            return False, 'got %r' % (val,)
        pay = p[1]
        if not isinstance(pay, Ag) or pay.path != midi.NEWTYPE_PATH[exp[1]]:
            return False, 'payload type %r' % (pay,)
        s = H.scalar_of(pay)
        ok = s is not None and H.same(s.term, exp[2], cons)
        return ok, 'payload %s, expected bits %s' % (H.describe(pay, cons), T.bits_str(T.bits_of(exp[2], cons, 16)))
    if kind == 'enum':
        if exp[2] is None:
            return False, 'oracle class not uniform'
        if not isinstance(val, Ag) or val.path != exp[1]:
            return False, 'got %r' % (val,)
        vn = H.variant_name(F, val)
        return vn == exp[2], 'got %s' % vn
    if kind == 'bool':
        if exp[1] is None:
            return False, 'oracle class not uniform'
        if not isinstance(val, Sc):
            return False, 'got %r' % (val,)
        v = vs_of(val.term, cons)
        return v.single() and v.lo == exp[1], 'got %s in %r' % (T.tstr(val.term), v)
    if kind == 'struct':
        return structured_matches(F, val, exp[1], cons, st, d1, d2)
    return False, 'unknown expectation'


def check_method(chk, F, method, cname, tname, cons, self_kind='abstract', self_value=None, subst=None, key_override=None,
                 label='abstract', pid=PID):
    key = key_override or (H.SM + '::' + ('r#type' if method == 'type' else method))
    okey = '%s/accessor/%s/%s/%s/%s' % (pid, F.cfg, label, method, cname)

    def ev():
        if key not in F.fns:
            return chk.ob(okey, 'accessor oracle', 'unproven', why='method body %s not found' % key)
        I, outs = H.run_method(F, key, self_kind, cons, self_value=self_value, subst=subst)
        exp = expectation(F, method, tname, cons, H.STATUS, H.D1, H.D2)
        status, why, found = 'proved', '', []
        if not outs:
            status, why = 'unproven', 'no outcome'
        for o in outs:
            if o.kind != 'return':
                status = 'refuted' if o.kind == 'panic' else 'unproven'
                why = '%s outcome (%s) for status in %r, d1 in %r, d2 in %r' % (
                    o.kind, o.why, vs_of(H.STATUS, o.st.cons), vs_of(H.D1, o.st.cons), vs_of(H.D2, o.st.cons))
                break
            ok, txt = matches(F, o.value, exp, o.st.cons, tname, H.STATUS, H.D1, H.D2)
            found.append(txt if not ok else repr(o.value))
            if not ok:
                status = 'refuted'
                why = 'for status in %r, d1 in %r, d2 in %r: %s' % (
                    vs_of(H.STATUS, o.st.cons), vs_of(H.D1, o.st.cons), vs_of(H.D2, o.st.cons), txt)
                break
            if o.st.notes:
                status, why = 'unproven', 'unmodelled callee on the path: %s' % o.st.notes[:2]
        chk.ob(okey, 'accessor oracle', status, subject=fn_subject(F, key),
               expected='%s' % (exp[:2] + (T.tstr(exp[2]),) if exp[0] == 'some' else exp,), found=found[:3], why=why)
        return I
    return guarded(chk, okey, 'accessor oracle', ev)


def type_tables(chk, F):
    cfg = F.cfg
    a = F.adts.get(SMT)
    if a is None:
        return chk.ob('%s/type-table/%s' % (PID, cfg), 'type table', 'unproven', why='ShortMessageType not found')
    names = [v['name'] for v in a['variants']]
    chk.floor('message_types', 23, len(names))
    # discriminants = first status byte of the class
    for v in a['variants']:
        t = midi.TYPE.get(v['name'])
        ok = t is not None and int(v['discr']) == t[1]
        chk.ob('%s/type-code/%s/%s' % (PID, cfg, v['name']), 'type table', 'proved' if ok else 'refuted',
               expected=hex(t[1]) if t else 'a MIDI 1.0 short message type', found=hex(int(v['discr'])), nontrivial=False)
    for tname in midi.TYPE:
        if tname not in names:
            chk.ob('%s/type-code/%s/%s' % (PID, cfg, tname), 'type table', 'refuted', expected='variant exists', found='missing', nontrivial=False)
    for cname, want in (('MIN', 0x80), ('MAX', 0xFF)):
        fk = SMT + '::' + cname
        if fk in F.fns:
            I, outs, args = run_fn(F, fk)
            ok = len(outs) == 1 and outs[0].kind == 'return' and isinstance(outs[0].value, Sc) and outs[0].value.term == C(want)
            chk.ob('%s/type-code/%s/%s' % (PID, cfg, cname), 'type table', 'proved' if ok else 'refuted', subject=fn_subject(F, fk),
                   expected=hex(want), found=[repr(o.value) for o in outs], nontrivial=False)
    # per variant: super_type / main_category, u8::from
    for i, v in enumerate(a['variants']):
        tname = v['name']
        if tname not in midi.TYPE:
            continue
        key = '%s/type-super/%s/%s' % (PID, cfg, tname)

        def ev(i=i, tname=tname, key=key):
            fk = SMT + '::super_type'
            I, outs = H.run_method(F, fk, 'value', {}, self_value=Ag(SMT, i, ()), subst=[])
            ok = len(outs) == 1 and outs[0].kind == 'return' and isinstance(outs[0].value, Ag) and outs[0].value.path == FST \
                and H.variant_name(F, outs[0].value) == midi.FUZZY[tname]
            chk.ob(key, 'type table', 'proved' if ok else 'refuted', subject=fn_subject(F, fk),
                   expected=midi.FUZZY[tname], found=[repr(o.value) for o in outs])
            if ok:
                fk2 = FST + '::main_category'
                I, outs2 = H.run_method(F, fk2, 'value', {}, self_value=outs[0].value, subst=[])
                want = midi.MAIN_OF_FUZZY[midi.FUZZY[tname]]
                ok2 = len(outs2) == 1 and outs2[0].kind == 'return' and isinstance(outs2[0].value, Ag) and H.variant_name(F, outs2[0].value) == want
                chk.ob('%s/type-main/%s/%s' % (PID, cfg, tname), 'type table', 'proved' if ok2 else 'refuted', subject=fn_subject(F, fk2),
                       expected=want, found=[repr(o.value) for o in outs2])
        guarded(chk, key, 'type table', ev)
        key = '%s/type-into-u8/%s/%s' % (PID, cfg, tname)

        def ev2(i=i, tname=tname, key=key):
            hit = find_impl(H.Interp(F), 'core::convert::From', 'from', [H.U8, H.adt_ty(SMT)])
            if not hit:
                return chk.ob(key, 'type table', 'unproven', why='From<ShortMessageType> for u8 not found')
            I = H.Interp(F)
            outs = I.run(hit[0], [Ag(SMT, i, ())], hit[1])
            ok = len(outs) == 1 and outs[0].kind == 'return' and isinstance(outs[0].value, Sc) and outs[0].value.term == C(midi.TYPE[tname][1])
            chk.ob(key, 'type table', 'proved' if ok else 'refuted', subject=fn_subject(F, hit[0]),
                   expected=hex(midi.TYPE[tname][1]), found=[repr(o.value) for o in outs])
        guarded(chk, key, 'type table', ev2)
    # MessageSuperType::main_category per variant
    ma = F.adts.get(MST)
    for i, v in enumerate(ma['variants'] if ma else []):
        key = '%s/super-main/%s/%s' % (PID, cfg, v['name'])

        def ev3(i=i, v=v, key=key):
            fk = MST + '::main_category'
            I, outs = H.run_method(F, fk, 'value', {}, self_value=Ag(MST, i, ()), subst=[])
            want = midi.MAIN_OF_SUPER.get(v['name'])
            ok = len(outs) == 1 and outs[0].kind == 'return' and isinstance(outs[0].value, Ag) and H.variant_name(F, outs[0].value) == want
            chk.ob(key, 'type table', 'proved' if ok else 'refuted', subject=fn_subject(F, fk), expected=want, found=[repr(o.value) for o in outs])
        guarded(chk, key, 'type table', ev3)
    # u8 -> ShortMessageType over the whole byte range
    key = '%s/type-from-u8/%s' % (PID, cfg)

    def ev4():
        fk = '<%s as core::convert::TryFrom<u8>>::try_from' % SMT
        if fk not in F.fns:
            return chk.ob(key, 'type table', 'unproven', why='TryFrom<u8> for ShortMessageType not found')
        I, outs, args = run_fn(F, fk)
        tok = args[0].term
        got = {}
        err = VS.of([])
        status, why = 'proved', ''
        for o in outs:
            v = vs_of(tok, o.st.cons)
            if o.kind != 'return' or not isinstance(o.value, Ag):
                status, why = 'unproven', '%s outcome' % o.kind
                continue
            if o.value.variant == 0:
                n = H.variant_name(F, o.value.fields[0])
                got[n] = got.get(n, VS.of([])).join(v)
            else:
                err = err.join(v)
        codes = set()
        for tname, t in midi.TYPE.items():
            codes.add(t[1])
            if got.get(tname) != VS.one(t[1]):
                status, why = 'refuted', 'byte(s) %r convert to %s, expected exactly %s' % (got.get(tname), tname, hex(t[1]))
        want_err = VS.of([x for x in range(256) if x not in codes])
        if status == 'proved' and err != want_err:
            status, why = 'refuted', 'rejected bytes %r, expected %r' % (err, want_err)
        chk.ob(key, 'type table', status, subject=fn_subject(F, fk), expected='Ok(type) exactly for the 23 type codes',
               found={k: repr(v) for k, v in list(got.items())[:4]}, why=why)
    guarded(chk, key, 'type table', ev4)


def controller_predicate(chk, F):
    key = '%s/channel-mode-controllers/%s' % (PID, F.cfg)

    def ev():
        fk = 'controller_number_mod::ControllerNumber::is_channel_mode_message_controller_number'
        if fk not in F.fns:
            return chk.ob(key, 'accessor oracle', 'unproven', why='predicate not found')
        I, outs, args = run_fn(F, fk)
        selfv = I.deref_all(outs[0].st, args[0])
        tok = H.scalar_of(selfv).term
        true_set = VS.of([])
        status, why = 'proved', ''
        for o in outs:
            if o.kind != 'return' or not isinstance(o.value, Sc):
                status, why = 'unproven', '%s outcome' % o.kind
                continue
            for want in (0, 1):
                c = dict(o.st.cons)
                if T.refine(o.value.term, VS.one(want), c) and want == 1:
                    true_set = true_set.join(vs_of(tok, c))
        lo, hi = midi.CHANNEL_MODE_CONTROLLERS
        if status == 'proved' and true_set != VS(lo, hi):
            status, why = 'refuted', 'predicate holds for controller numbers %r, MIDI 1.0 channel mode messages are %d..%d' % (true_set, lo, hi)
        chk.ob(key, 'accessor oracle', status, subject=fn_subject(F, fk), expected='true exactly for %d..%d' % (lo, hi), found=repr(true_set), why=why)
    guarded(chk, key, 'accessor oracle', ev)


def run(tier, cmd):
    chk = Check(PID, tier, 'other',
                'abstract interpretation of every ShortMessage default method for an abstract implementor, once per spec class '
                '(status class x oracle splits); result compared to the MIDI 1.0 oracle by bit provenance; type tables by '
                'interpretation per enum variant and by outcome summary over the whole u8 domain',
                cmd, trusted_base=TRUSTED,
                assumptions=['data bytes are 7-bit (U7 invariant, C04)', 'status byte >= 0x80 (validity of a short message; type() panics otherwise by design, see C18)'],
                explanation='Decides, for every implementor that provides the three byte getters (hence for RawShortMessage, and via C01/C03 for '
                            'StructuredShortMessage): type, super type, main category, channel, all seven field accessors, is_note*, and the '
                            'structured form, each against the MIDI 1.0 table for all 2^21 valid triples through a finite class partition '
                            '(uniformity inside a class is part of the obligation). Also ShortMessageType <-> u8 over all 256 bytes and the '
                            'per-type super type / main category tables. Invalid status bytes (< 0x80) are outside the property.')
    Fs = load_configs(chk, ['K1', 'K2'], required=('K1',))
    for cfg, F in sorted(Fs.items()):
        cls = classes(tier)
        chk.extra['classes'] = len(cls)
        fns = set()
        for method in METHODS:
            for cname, tname, cons in cls:
                I = check_method(chk, F, method, cname, tname, cons)
                if I is not None:
                    fns |= I.fns_entered
        # the same through the concrete raw implementor (its getters return the stored tuple)
        rawv = Ag(H.RAW, 0, [Ag('()', 0, [Sc(H.STATUS, H.U8), H.u7(H.D1), H.u7(H.D2)])])
        for method in METHODS:
            for cname, tname, cons in (cls if tier == 'thorough' else classes('quick')):
                hit = find_impl(H.Interp(F), H.SM, 'type' if method == 'type' else method, [H.adt_ty(H.RAW)])
                check_method(chk, F, method, cname, tname, cons, 'value', rawv, subst=[H.adt_ty(H.RAW)],
                             key_override=hit[0] if hit else None, label='raw')
        chk.extra.setdefault('functions_interpreted', {})[cfg] = len(fns)
        guarded(chk, '%s/type-table/%s' % (PID, cfg), 'type table', lambda F=F: type_tables(chk, F))
        controller_predicate(chk, F)
    return chk.finish()
