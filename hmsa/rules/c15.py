"""C15 — scanners keep channels isolated (ownership / non-interference proof).

  storage     each scanner's only field is a private array of 16 per-channel elements; the element
              type (recursively) holds plain data only: no reference, raw pointer, interior
              mutability; the crate has no statics
  routing     outer feed: for a message without channel nothing is called and the store is untouched;
              otherwise exactly one element is borrowed, its index is the channel (low nibble of the
              status byte, unmodified, by bit provenance), the bounds check cannot fail, the element
              method gets only that element and the message, and its result is returned unchanged.
              outer poll(channel): likewise with the parameter
  reporting   every message reported by an element carries the channel of the triggering call
  start       all 16 elements start identical
Hence each element's trajectory is a function of its own inputs only.
"""
from .. import terms as T, automata as A, scan
from ..terms import VS, C, vs_of
from ..interp import Interp, Sc, Ag, Ar, Rf, Un, val_key
from ..report import Check, fn_subject
from .. import harness as H
from .common import load_configs, guarded, TRUSTED
from . import scanners

PID = 'C15'
PLAIN_CORE = ('core::option::Option', 'core::time::Duration', 'std::time::Instant')
INTERIOR = ('Cell', 'RefCell', 'UnsafeCell', 'Atomic', 'Mutex', 'RwLock', 'OnceCell', 'Rc', 'Arc', 'Box', 'Vec', 'String')


def plain_data(F, ty, seen=None):
    """-> None if the type holds plain data only, else a description of the offending component"""
    seen = seen or set()
    k = ty['k']
    if k in ('int', 'bool', 'char', 'float'):
        return None
    if k == 'tuple':
        for t in ty['tys']:
            r = plain_data(F, t, seen)
            if r:
                return r
        return None
    if k == 'array':
        return plain_data(F, ty['ty'], seen)
    if k == 'adt':
        p = ty['path']
        if p in seen:
            return None
        seen.add(p)
        if p in PLAIN_CORE:
            for a in ty['args']:
                if a['k'] not in ('lifetime', 'constarg'):
                    r = plain_data(F, a, seen)
                    if r:
                        return r
            return None
        a = F.adts.get(p)
        if a is None:
            return 'foreign type %s' % p
        if a['kind'] == 'union':
            return 'union %s' % p
        for v in a['variants']:
            for f in v['fields']:
                r = plain_data(F, f['ty'], seen)
                if r:
                    return '%s.%s: %s' % (p.split('::')[-1], f['name'], r)
        return None
    return '%s type' % k


def storage_clause(chk, F, which, model):
    cfg = F.cfg
    a = F.adts[model.outer]
    fs = a['variants'][0]['fields']
    ok = len(fs) == 1 and model.array_len == 16 and model.array_field_private
    chk.ob('%s/storage/%s/%s/array' % (PID, cfg, which), 'storage shape', 'proved' if ok else 'refuted',
           subject={'at': a['span']['at'], 'type': model.outer}, expected='one private field [element; 16]',
           found=[(f['name'], f['vis'].split('(')[0], f['ty']['k'], f['ty'].get('len')) for f in fs], nontrivial=False)
    r = plain_data(F, model.sub_ty)
    chk.ob('%s/storage/%s/%s/plain-data' % (PID, cfg, which), 'storage shape', 'proved' if r is None else 'refuted',
           subject={'type': model.sub}, expected='per-channel state holds plain data only (no reference, pointer, interior mutability)',
           found=r or 'plain', nontrivial=False)
    cp = F.adts[model.outer]['copy'] and F.adts[model.sub]['copy']
    chk.ob('%s/storage/%s/%s/copy' % (PID, cfg, which), 'storage shape', 'proved' if cp else 'refuted',
           expected='scanner and element are Copy (own no heap, share nothing)', found=cp, nontrivial=False)


def outer_run(F, model, method, cons, extra_args=(), msg=True):
    """interpret the outer method with the element method opaque"""
    calls = []
    subk = model.sub_key(method)

    def opaque(I, st, fr, t, key, args, gargs):
        tok = st.fresh('subret', 'opaque')
        st.events.append(('subcall', key, args, tok))
        return I.done(st, fr, t, Sc(tok, I.ret_ty(fr, t)))
    hooks = H.msg_hooks(A.CUR_STATUS, A.CUR_D1, A.CUR_D2)
    I = Interp(F, abstract_methods=hooks, opaque_calls={subk: opaque})
    st = I.new_state()
    st.cons.update(cons)
    selfv = I.top_of(st, model.outer_ty, 'scanner')
    st.root().locals['self'] = selfv
    args = [Rf(0, 'self', (), True)]
    sub = []
    if msg:
        st.root().locals['msg'] = Sc(T.T('msg', 'opaque'), H.param('impl ShortMessage', 0))
        args.append(Rf(0, 'msg', ()))
        sub = [H.param('impl ShortMessage', 0)]
    args += list(extra_args)
    outs = I.run(model.methods[method][0], args, sub, st)
    return I, outs, selfv


def routing_clause(chk, F, which, model, neutral_len):
    cfg = F.cfg
    okey = model.methods['feed'][0]
    subk = model.sub_key('feed')
    classes = [('channel-message', VS(0x80, 0xEF), True), ('system-message', VS(0xF0, 0xFF), False)]
    for cname, svs, has_ch in classes:
        key = '%s/routing/%s/%s/feed/%s' % (PID, cfg, which, cname)

        def ev(cname=cname, svs=svs, has_ch=has_ch, key=key):
            cons = {A.CUR_STATUS: svs, A.CUR_D1: VS(0, 127), A.CUR_D2: VS(0, 127)}
            I, outs, selfv = outer_run(F, model, 'feed', cons)
            status, why, found = 'proved', '', []
            for o in outs:
                calls = [e for e in o.st.events if e[0] == 'subcall']
                writes = [e for e in o.st.events if e[0] in ('weak-array-write', 'havoc')]
                if o.kind != 'return':
                    status, why = ('refuted' if o.kind == 'panic' else 'unproven'), '%s outcome: %s (status in %r)' % (o.kind, o.why, vs_of(A.CUR_STATUS, o.st.cons))
                    continue
                if o.st.notes:
                    status, why = 'unproven', 'unmodelled callee: %s' % o.st.notes[:2]
                    continue
                if not has_ch:
                    unchanged = val_key(o.st.root().locals['self']) == val_key(selfv)
                    neutral = is_neutral(o.value)
                    found.append('calls=%d unchanged=%s result=%r' % (len(calls), unchanged, o.value))
                    if calls or writes or not unchanged or not neutral:
                        status, why = 'refuted', 'a message without channel reaches a per-channel element or changes the scanner (calls %d, result %r)' % (len(calls), o.value)
                    continue
                if len(calls) != 1:
                    status, why = 'refuted', '%d element calls for one channel message' % len(calls)
                    continue
                _, k2, args, tok = calls[0]
                elem = args[0]
                want_idx = H.t_low_nibble(A.CUR_STATUS, o.st.cons)
                idx = [p for p in elem.path if p[0] == 'i'] if isinstance(elem, Rf) else []
                ok_idx = isinstance(elem, Rf) and elem.local == 'self' and len(idx) == 1 and H.same(idx[0][1], want_idx, o.st.cons)
                ok_msg = len(args) == 2 and isinstance(args[1], Rf) and args[1].local == 'msg' and not args[1].path
                ok_ret = isinstance(o.value, Sc) and o.value.term == tok
                others = val_key(o.st.root().locals['self']) == val_key(selfv)
                found.append('element index %s' % (T.bits_str(T.bits_of(idx[0][1], o.st.cons, 8)) if idx else '?'))
                if not ok_idx:
                    status, why = 'refuted', 'the element index is %s, expected the channel nibble of the status byte' % (
                        T.bits_str(T.bits_of(idx[0][1], o.st.cons, 8)) if idx else repr(elem))
                elif not ok_msg:
                    status, why = 'refuted', 'the element method receives %r instead of the message' % (args[1:],)
                elif not ok_ret:
                    status, why = 'refuted', 'the result of the element method is not returned unchanged: %r' % (o.value,)
                elif not others or writes:
                    status, why = 'refuted', 'the outer method writes to the element array itself'
            chk.ob(key, 'routing by channel', status, subject=fn_subject(F, okey),
                   expected='exactly one element, index = channel nibble, result passed through' if has_ch else 'nothing called, store untouched, neutral result',
                   found=found[:3], why=why)
        guarded(chk, key, 'routing by channel', ev)
    if 'poll' in model.methods:
        key = '%s/routing/%s/%s/poll' % (PID, cfg, which)

        def evp():
            ch = H.nt('Channel', A.POLL_CH)
            I, outs, selfv = outer_run(F, model, 'poll', {A.POLL_CH: VS(0, 15)}, extra_args=[ch], msg=False)
            status, why = 'proved', ''
            for o in outs:
                calls = [e for e in o.st.events if e[0] == 'subcall']
                if o.kind != 'return' or len(calls) != 1:
                    status, why = ('refuted' if o.kind == 'panic' or o.kind == 'return' else 'unproven'), '%s outcome with %d element calls (%s)' % (o.kind, len(calls), o.why)
                    continue
                _, k2, args, tok = calls[0]
                elem = args[0]
                idx = [p for p in elem.path if p[0] == 'i'] if isinstance(elem, Rf) else []
                ok = isinstance(elem, Rf) and elem.local == 'self' and len(idx) == 1 and H.same(idx[0][1], A.POLL_CH, o.st.cons) \
                    and len(args) == 2 and H.scalar_of(args[1]) is not None and H.scalar_of(args[1]).term == A.POLL_CH \
                    and isinstance(o.value, Sc) and o.value.term == tok
                if not ok:
                    status, why = 'refuted', 'poll(channel) does not address exactly the element of that channel: %r' % (args,)
            chk.ob(key, 'routing by channel', status, subject=fn_subject(F, model.methods['poll'][0]),
                   expected='element index = the channel parameter; result passed through', found=[o.kind for o in outs], why=why)
        guarded(chk, key, 'routing by channel', evp)


def is_neutral(v):
    p = H.opt_payload(v)
    if p is not None:
        return p == ('none',)
    if isinstance(v, Ar):
        return all(H.opt_payload(e) == ('none',) for e in v.elems)
    return False


def reporting_clause(chk, F, which):
    cfg = F.cfg
    model, spec, P = scanners.product(F, which)
    bad = None
    n = 0
    for r in P.rows:
        if r.outcome_kind != 'return' or not r.outputs:
            continue
        for m in r.outputs:
            n += 1
            ch = H.scalar_of(m.get('channel'))
            want = A.POLL_CH if r.kind == 'poll' else H.t_low_nibble(A.CUR_STATUS, r.cons_out)
            if ch is None or not H.same(ch.term, want, r.cons_out):
                bad = 'input %s: reported channel %s' % (r.cname, H.describe(m.get('channel'), r.cons_out))
    chk.ob('%s/reporting/%s/%s' % (PID, cfg, which), 'reported channel', 'refuted' if bad else ('proved' if n else 'unproven'),
           subject=fn_subject(F, model.sub_key('feed')), expected='channel nibble of the triggering message / the polled channel',
           found='%d reported messages over all transition rows' % n, why=bad or ('' if n else 'no reporting row found'))
    # identical start
    key = '%s/start/%s/%s' % (PID, cfg, which)

    def ev():
        from ..models import find_impl
        hit = find_impl(Interp(F), 'core::default::Default', 'default', [model.outer_ty])
        I = Interp(F)
        outs = I.run(hit[0], [], hit[1]) if hit else []
        ok = len(outs) == 1 and outs[0].kind == 'return' and isinstance(outs[0].value, Ag)
        if ok:
            arr = outs[0].value.fields[0]
            ok = isinstance(arr, Ar) and len(arr.elems) == 16 and all(val_key(e) == val_key(arr.elems[0]) for e in arr.elems)
        chk.ob(key, 'identical start', 'proved' if ok else 'refuted', expected='16 identical elements', found=[o.kind for o in outs])
    guarded(chk, key, 'identical start', ev)


def run(tier, cmd):
    chk = Check(PID, tier, 'proof',
                'ownership / non-interference: storage-shape audit over the ADT table; abstract interpretation of the outer feed/poll with '
                'the element method opaque (one borrowed element, index term = channel by bit provenance, result passed through, nothing '
                'for system messages); reported channel on every extracted transition row',
                cmd, trusted_base=TRUSTED + ['Rust aliasing rules: a &mut to one array element cannot reach another element (no unsafe code in the crate, C04 R4.1)'],
                assumptions=['channel() classification of C02 for the abstract message'],
                explanation='')
    Fs = load_configs(chk, ['K1', 'K2'], required=('K1',))
    for cfg, F in sorted(Fs.items()):
        st = [s for s in F.statics]
        chk.ob('%s/no-statics/%s' % (PID, cfg), 'storage shape', 'proved' if not st else 'refuted',
               expected='the crate defines no static item', found=[s['path'] for s in st], nontrivial=False)
        uc = scan.unsafe_constructs(F)
        chk.ob('%s/no-unsafe-memory/%s' % (PID, cfg), 'storage shape', 'proved' if not uc else 'refuted',
               expected='no transmute / raw pointer / union / static mut', found=[(k, t) for k, s, t in uc][:5], nontrivial=False)
        for which, (cls, name) in sorted(scanners.SCANNERS.items()):
            if which == 'polling' and 'std' not in F.features:
                continue

            def per(F=F, which=which, name=name):
                model = A.ScannerModel(F, name)
                storage_clause(chk, F, which, model)
                routing_clause(chk, F, which, model, 2 if which == 'polling' else 1)
                reporting_clause(chk, F, which)
            guarded(chk, '%s/scanner/%s/%s' % (PID, cfg, which), 'routing by channel', per)
    return chk.finish()
