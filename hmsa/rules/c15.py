"""C15 — scanners keep channels isolated (ownership / non-interference proof).

  storage     each scanner holds one private array of 16 per-channel elements; the element type and
              any further field (recursively) hold plain data only: no reference, raw pointer, interior
              mutability; the crate has no statics
  isolation   the outer feed / poll are interpreted for each concrete channel k from every reachable
              typestate of element k, with the other 15 elements as unconstrained tops: no explicit write
              lands in another element or in a field shared by all channels, and no other element is read
  system      system messages (status 0xF0-0xFF, seen from every channel): nothing reported, store equal
  reporting   every message reported by an element carries the channel of the triggering call
  start       all 16 elements start identical
Hence each element's trajectory is a function of its own inputs only.
"""
from .. import terms as T, automata as A, scan
from ..terms import VS, C, vs_of
from ..interp import Interp, Sc, Ag, Ar, Rf, Un, val_key
from ..report import Check, fn_subject
from .. import harness as H
from .common import load_configs, guarded, TRUSTED
from . import scanners

PID = 'C15'
PLAIN_CORE = ('core::option::Option', 'core::time::Duration', 'std::time::Instant')
INTERIOR = ('Cell', 'RefCell', 'UnsafeCell', 'Atomic', 'Mutex', 'RwLock', 'OnceCell', 'Rc', 'Arc', 'Box', 'Vec', 'String')


def plain_data(F, ty, seen=None):
    """-> None if the type holds plain data only, else a description of the offending component"""
    seen = seen or set()
    k = ty['k']
    if k in ('int', 'bool', 'char', 'float'):
        return None
    if k == 'tuple':
        for t in ty['tys']:
            r = plain_data(F, t, seen)
            if r:
                return r
        return None
    if k == 'array':
        return plain_data(F, ty['ty'], seen)
    if k == 'adt':
        p = ty['path']
        if p in seen:
            return None
        seen.add(p)
        if p in PLAIN_CORE:
            for a in ty['args']:
                if a['k'] not in ('lifetime', 'constarg'):
                    r = plain_data(F, a, seen)
                    if r:
                        return r
            return None
        a = F.adts.get(p)
        if a is None:
            return 'foreign type %s' % p
        if a['kind'] == 'union':
            return 'union %s' % p
        from ..interp import subst_ty
        for v in a['variants']:
            for f in v['fields']:
                r = plain_data(F, subst_ty(f['ty'], ty.get('args') or []), seen)
                if r:
                    return '%s.%s: %s' % (p.split('::')[-1], f['name'], r)
        return None
    return '%s type' % k


def storage_clause(chk, F, which, model):
    cfg = F.cfg
    a = F.adts[model.outer]
    fs = a['variants'][0]['fields']
    ok = model.array_len == 16 and model.array_field_private
    chk.ob('%s/storage/%s/%s/array' % (PID, cfg, which), 'storage shape', 'proved' if ok else 'refuted',
           subject={'at': a['span']['at'], 'type': model.outer}, expected='private fields, the per-channel state in array(s) of 16 elements',
           found=[(f['name'], f['vis'].split('(')[0], f['ty']['k'], f['ty'].get('len')) for f in fs], nontrivial=False)
    r = None
    for ety in model.elem_tys:
        r = r or plain_data(F, ety)
    for pth in model.extra:
        r = r or plain_data(F, model.leaf_ty[pth])
    chk.ob('%s/storage/%s/%s/plain-data' % (PID, cfg, which), 'storage shape', 'proved' if r is None else 'refuted',
           subject={'type': model.sub or model.outer}, expected='scanner state holds plain data only (no reference, pointer, interior mutability)',
           found=r or 'plain', nontrivial=False)
    cp = F.adts[model.outer]['copy']
    chk.ob('%s/storage/%s/%s/copy' % (PID, cfg, which), 'storage shape', 'proved' if cp else 'refuted',
           expected='the scanner is Copy (owns no heap, shares nothing)', found=cp, nontrivial=False)


def isolation_clause(chk, F, which):
    """from the product: no row of the outer feed / poll, interpreted for channel k with the other 15 elements as
    unconstrained tops, writes or reads another element or writes a field shared by all channels"""
    cfg = F.cfg
    model, spec, P, allp = scanners.product(F, which)
    for k in sorted(allp):
        Pk = allp[k]
        texts, rows, states = [], 0, len(Pk.pairs)
        for m in Pk.mismatches:
            if len(m) > 3 and m[3] == 'interference':
                t = '%s: %s' % (m[1], m[2])
                if t not in texts:
                    texts.append(t)
        lost = [r for r in Pk.rows if r.outcome_kind not in ('return', 'panic')]
        for r in lost:
            t = 'unproven: %s outcome on input %s (%s)' % (r.outcome_kind, r.cname, r.why)
            if t not in texts:
                texts.append(t)
        rows = len([r for r in Pk.rows if r.kind != 'reset'])
        okey = '%s/isolation/%s/%s/channel-%d' % (PID, cfg, which, k)
        if not rows or not states:
            chk.ob(okey, 'non-interference on the transition rows', 'unproven', why='no transition row for this channel')
            continue
        chk.ob(okey, 'non-interference on the transition rows', scanners.verdict(texts) if texts else 'proved',
               subject=fn_subject(F, model.outer_key('feed')),
               expected='feed / poll for channel %d touch only element %d of the per-channel array' % (k, k),
               found='%d rows from %d reachable typestates' % (rows, states), why='; '.join(texts)[:600])
    chk.floor('channels_%s_%s' % (which, cfg), 16, len(allp))


def reporting_clause(chk, F, which):
    cfg = F.cfg
    model, spec, P, allp = scanners.product(F, which)
    bad = None
    n = 0
    for k in sorted(allp):
        for r in allp[k].rows:
            if r.outcome_kind != 'return' or not r.outputs:
                continue
            for m in r.outputs:
                n += 1
                ch = H.scalar_of(m.get('channel'))
                if ch is None or not H.same(ch.term, C(k), r.cons_out):
                    bad = 'input %s on channel %d: reported channel %s' % (r.cname, k, H.describe(m.get('channel'), r.cons_out))
    chk.ob('%s/reporting/%s/%s' % (PID, cfg, which), 'reported channel', 'refuted' if bad else ('proved' if n else 'unproven'),
           subject=fn_subject(F, model.sub_key('feed')), expected='channel of the triggering message / the polled channel',
           found='%d reported messages over all transition rows of all 16 channels' % n, why=bad or ('' if n else 'no reporting row found'))
    # identical start
    key = '%s/start/%s/%s' % (PID, cfg, which)

    def ev():
        from ..models import find_impl
        hit = find_impl(Interp(F), 'core::default::Default', 'default', [model.outer_ty])
        I = Interp(F)
        outs = I.run(hit[0], [], hit[1]) if hit else []
        ok = len(outs) == 1 and outs[0].kind == 'return' and isinstance(outs[0].value, Ag)
        if ok:
            ok = model.uniform(outs[0].value)
        chk.ob(key, 'identical start', 'proved' if ok else 'refuted', expected='16 identical elements', found=[o.kind for o in outs])
    guarded(chk, key, 'identical start', ev)


def run(tier, cmd):
    chk = Check(PID, tier, 'proof',
                'ownership / non-interference: storage-shape audit over the ADT table; abstract interpretation of the outer feed/poll '
                'for each of the 16 concrete channels from every reachable typestate with the other 15 per-channel elements as '
                'unconstrained tops and an explicit-write log (no write to or read of another element, no write to a shared field, '
                'system messages are the identity and report nothing); reported channel on every extracted transition row',
                cmd, trusted_base=TRUSTED + ['Rust aliasing rules: a &mut to one array element cannot reach another element (no unsafe code in the crate, C04 R4.1)'],
                assumptions=['channel() classification of C02 for the abstract message'],
                explanation='')
    Fs = load_configs(chk, ['K1', 'K2'], required=('K1',))
    for cfg, F in sorted(Fs.items()):
        st = [s for s in F.statics]
        chk.ob('%s/no-statics/%s' % (PID, cfg), 'storage shape', 'proved' if not st else 'refuted',
               expected='the crate defines no static item', found=[s['path'] for s in st], nontrivial=False)
        uc = scan.unsafe_constructs(F)
        chk.ob('%s/no-unsafe-memory/%s' % (PID, cfg), 'storage shape', 'proved' if not uc else 'refuted',
               expected='no transmute / raw pointer / union / static mut', found=[(k, t) for k, s, t in uc][:5], nontrivial=False)
        for which, (cls, name) in sorted(scanners.SCANNERS.items()):
            if which == 'polling' and 'std' not in F.features:
                continue

            def per(F=F, which=which, name=name):
                model = A.ScannerModel(F, name)
                storage_clause(chk, F, which, model)
                isolation_clause(chk, F, which)
                scanners.cell_obligations(chk, F, which, 'product with the reference automaton (system messages)',
                                          classes=('System',), prefix='system', tags=('behaviour', 'interference'))
                reporting_clause(chk, F, which)
            guarded(chk, '%s/scanner/%s/%s' % (PID, cfg, which), 'routing by channel', per)
    return chk.finish()
