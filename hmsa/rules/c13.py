"""C13 — the polling scanner honours its timeout.

  poll cells     product with O4 on the poll columns: a message only from a pending MSB under
                 not(elapsed(arrival) < timeout); pending LSB dropped on expiry; the comparison must
                 normalise to exactly that predicate (<=, swapped operands, a constant, a missing
                 comparison all mismatch syntactically)
  no effect      a poll before the timeout, or in a non-pending state, returns nothing and leaves the
                 store structurally identical
  time taint     feed never calls elapsed(), branches on no time-dependent predicate and reports no
                 clock token: the passage of time cannot change what feed returns
  fresh stamp    every entry into a pending state stores an Instant::now() taken in that very call
  timeout        new(t) stores t in all 16 elements; reset keeps it (poll's predicate reads the same token)
Real-clock behaviour (what Instant does) is not decided; the clock is an uninterpreted token.
"""
from .. import terms as T, automata as A
from ..terms import VS, C
from ..interp import Interp, Sc, Ag, Ar, val_key
from ..report import Check, fn_subject
from .. import harness as H
from .common import load_configs, guarded, TRUSTED
from . import scanners

PID = 'C13'


def opaque_tokens(v, acc=None):
    acc = set() if acc is None else acc
    if isinstance(v, Sc):
        for t in T.tokens_of(v.term):
            if t[2] == 'opaque':
                acc.add(t)
        if v.term[0] == 'app':
            acc.add(v.term)
    elif isinstance(v, (Ag, Ar)):
        for f in (v.fields if isinstance(v, Ag) else v.elems):
            opaque_tokens(f, acc)
    return acc


def _worse(a, b):
    order = {'proved': 0, 'unproven': 1, 'refuted': 2}
    return a if order[a[0]] >= order[b[0]] else b


def clauses(chk, F):
    cfg = F.cfg
    model, spec, P, allp = scanners.product(F, 'polling')
    fk_feed, fk_poll = model.sub_key('feed'), model.sub_key('poll')
    res_poll, res_feed, shapes = {}, {}, []
    for k in sorted(allp):
        Pk = allp[k]
        by_cell = {}
        for r in Pk.rows:
            by_cell.setdefault((r.pair_key, r.cname), []).append(r)
        for key in Pk.order:
            cs, ss, cons, label = Pk.pairs[key]
            shape = A.spec_shape(ss)
            if shape not in shapes:
                shapes.append(shape)
            tag = ss[0]
            # ---- poll has no effect unless a pending value expired
            rows = by_cell.get((key, 'poll'), [])
            status, why = 'proved', ''
            for r in rows:
                if r.outcome_kind != 'return':
                    status, why = 'unproven', r.outcome_kind
                    continue
                expired = A.elapsed_vs_timeout(r.preds)[0] is False
                if tag in ('P6', 'P38') and expired:
                    continue
                if not r.identity or r.outputs:
                    status, why = 'refuted', 'poll(channel %d) in state %s %s changes the state or reports: %s' % (
                        k, A.typestate_label(F, cs), 'before the timeout' if tag in ('P6', 'P38') else '(nothing pending)', scanners.describe_row(F, r))
            if tag in ('P6', 'P38') and status == 'proved':
                ps = [p for r in rows for p in r.preds]
                verdicts = [A.elapsed_vs_timeout(r.preds) for r in rows]
                want_e, want_t = ('app', 'elapsed', (ss[6],)), ss[1]
                # every path decides elapsed(arrival) < timeout (one comparison in any spelling, or the arms of a three-way cmp),
                # about exactly these two terms, and both answers occur
                if not ps or any(v[0] is None or (v[1], v[2]) != (want_e, want_t) for v in verdicts) or {v[0] for v in verdicts} != {True, False}:
                    status, why = 'refuted', 'poll(channel %d) does not split exactly on elapsed(arrival) < timeout: recorded %s' % (k, [T.pred_str(p) for p in ps])
            cur = (status, why, [scanners.describe_row(F, r) for r in rows[:3]])
            res_poll[shape] = _worse(res_poll[shape], cur) if shape in res_poll else cur
            # ---- time taint of feed
            status, why, n = 'proved', '', 0
            for r in Pk.rows:
                if r.pair_key != key or r.kind not in ('cc', 'noncc') or r.outcome_kind != 'return':
                    continue
                n += 1
                if any(e[0] == 'elapsed' for e in r.events):
                    status, why = 'refuted', 'feed(%s) reads the elapsed time' % r.cname
                if any(p[0] == 'lt' or 'elapsed' in repr(p) or 'now#' in repr(p) for p in r.preds):
                    status, why = 'refuted', 'feed(%s) branches on a time-dependent condition %s' % (r.cname, [T.pred_str(p) for p in r.preds])
                if opaque_tokens(r.ret):
                    status, why = 'refuted', 'feed(%s) reports a clock value' % r.cname
                if r.code_out is None:
                    continue        # a cell the product already reports
                # fresh stamp
                new_opaque = opaque_tokens(r.code_out) - opaque_tokens(r.code_in)
                if not new_opaque <= set(r.now_tokens):
                    status, why = 'refuted', 'feed(%s) stores a time value that is not Instant::now() of this call' % r.cname
                if r.spec_out is not None and r.spec_out[0] in ('P6', 'P38') and (r.spec_in[0] not in ('P6', 'P38') or r.cname in ('CC.6', 'CC.38')):
                    stamp = r.spec_out[6]
                    if stamp not in r.now_tokens or stamp not in opaque_tokens(r.code_out):
                        status, why = 'refuted', 'feed(%s) enters a pending state without stamping the arrival time now' % r.cname
            if why:
                why = 'channel %d: %s' % (k, why)
            cur = (status, why, n)
            res_feed[shape] = _worse(res_feed[shape], cur) if shape in res_feed else cur
    for shape in shapes:
        status, why, found = res_poll[shape]
        chk.ob('%s/poll-no-effect/%s/%s' % (PID, cfg, shape), 'poll is the identity unless a pending value expired', status,
               subject=fn_subject(F, fk_poll), expected='returns None, store unchanged', found=found, why=why)
        status, why, n = res_feed[shape]
        chk.ob('%s/feed-time-independent/%s/%s' % (PID, cfg, shape), 'time taint of feed', status, subject=fn_subject(F, fk_feed),
               expected='no elapsed(), no time-dependent branch or output; pending states stamped with a fresh now()', found='%d rows' % n, why=why)
    # ---- timeout distribution
    key = '%s/timeout-distribution/%s' % (PID, cfg)

    def ev():
        newk = model.outer + '::new'
        I = Interp(F)
        st = I.new_state()
        tok = T.T('timeout', 'opaque')
        outs = I.run(newk, [Sc(tok, {'k': 'adt', 'path': 'core::time::Duration', 'krate': 'core', 'args': []})], [], st)
        ok = len(outs) == 1 and outs[0].kind == 'return' and isinstance(outs[0].value, Ag)
        why = ''
        if ok:
            ok = model.uniform(outs[0].value) and tok in opaque_tokens(model.wrap(outs[0].value, 0))
            if not ok:
                why = 'new(timeout) = %r' % (outs[0].value,)
        chk.ob(key, 'timeout stored in every element', 'proved' if ok else 'refuted', subject=fn_subject(F, newk),
               expected='16 identical elements; the given timeout stored for every channel', found=[o.kind for o in outs], why=why)
    guarded(chk, key, 'timeout stored in every element', ev)


def run(tier, cmd):
    chk = Check(PID, tier, 'other',
                'product of the extracted poll/feed transition function with O4 (poll columns split on the recorded predicate), '
                'structural identity of the store on non-firing polls, taint analysis of clock tokens through feed, freshness of the '
                'stored time stamp, distribution of the timeout by new()',
                cmd, trusted_base=TRUSTED + ['Instant::now / Instant::elapsed / Duration: PartialOrd (the clock is an uninterpreted token)'],
                assumptions=['poll outcomes are split on the recorded predicate elapsed(arrival) < timeout'],
                explanation='Decides, over every reachable abstract state: poll returns a message only from a pending MSB when not(elapsed < timeout), '
                            'exactly the pending 7-bit message, and moves to the waiting state (so further polls return nothing); a pending LSB '
                            'is dropped on expiry; otherwise poll is the identity on the store; feed neither reads elapsed time nor reports clock '
                            'values, and stamps pending values with a now() of the same call. Not decided: behaviour of the real clock.')
    Fs = load_configs(chk, ['K1'], required=('K1',))
    for cfg, F in sorted(Fs.items()):
        guarded(chk, '%s/product/%s' % (PID, cfg), 'product with the reference automaton',
                lambda F=F: scanners.cell_obligations(chk, F, 'polling', 'product with the reference automaton (poll columns and the stamping cells)',
                                                       classes=('poll', 'CC.6', 'CC.38')))
        guarded(chk, '%s/clauses/%s' % (PID, cfg), 'time taint of feed', lambda F=F: clauses(chk, F))
    return chk.finish()
