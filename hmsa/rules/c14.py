"""C14 — the polling scanner never fabricates, duplicates or loses data entries.

Token accounting over the extracted transition rows (the same product as C12/C13): every token of
a state is labelled with its *origin* (which controller's control value it was, computed as a
fixpoint over the rows), and every row is checked against the clauses of the property:
  provenance   reported channel = channel of the triggering call; number bits come from the latest
               number MSB/LSB bytes; 7-bit value = a stored controller-6 value (never the current one);
               14-bit value = controller-6 high bits + controller-38 low bits; inc/dec = current value
  complete     nothing is reported while the number is incomplete
  linear       the pending controller-6 token is, on every edge, either still pending or reported in
               exactly one message; never reported as 7-bit after having been part of a 14-bit value
  no loss      every contributing message / expired poll leaving a pending-MSB state reports it
               (resets excepted)
  shape        two messages only for increment/decrement after a pending MSB, data entry first;
               never a second without a first (extraction rejects such results)
"""
from .. import terms as T, automata as A
from ..terms import C
from ..interp import Sc, Ag
from ..report import Check, fn_subject
from .. import harness as H
from .common import load_configs, guarded, TRUSTED
from . import scanners

PID = 'C14'
NUM_MSB, NUM_LSB = {'cv@CC.99', 'cv@CC.101'}, {'cv@CC.98', 'cv@CC.100'}


def origins_fixpoint(P):
    """pair key -> {canonical token -> set of origin labels}"""
    org = {k: {} for k in P.pairs}
    for label, k in P.init_keys:
        cs, ss, cons, _ = P.pairs[k]
        toks = []
        A.value_tokens_ordered(cs, toks)
        for t in toks:
            org[k].setdefault(t, set()).add('timeout')
    changed = True
    while changed:
        changed = False
        for r in P.rows:
            if r.next_key is None or r.rename is None:
                continue
            src = org[r.pair_key]
            dst = org[r.next_key]
            for orig, canon in r.rename.items():
                if orig == A.CUR_D2:
                    o = {'cv@' + r.cname}
                elif orig == A.CUR_D1:
                    o = {'cn@' + r.cname}
                elif orig == A.CUR_STATUS:
                    o = {'status'}
                elif orig in r.now_tokens:
                    o = {'now@' + r.cname}
                else:
                    o = src.get(orig, {'?'})
                cur = dst.setdefault(canon, set())
                if not o <= cur:
                    cur |= o
                    changed = True
    return org


def bit_origins(term, cons, org_in, cname, lo, hi):
    """origin labels of the tokens contributing bits lo..hi-1 of a term"""
    b = T.bits_of(term, cons, 16)
    if b is None:
        return None
    out = set()
    for j in range(lo, hi):
        x = b[j]
        if x in (0, 1):
            continue
        if x == T.UNK:
            return None
        tok = x[1]
        if tok == A.CUR_D2:
            out.add('cv@' + cname + '(current)')
        elif tok in (A.CUR_D1, A.CUR_STATUS, A.POLL_CH):
            out.add(tok[1])
        else:
            out |= org_in.get(tok, {'?'})
    return out


def observe(chk, F, tier='thorough'):
    cfg = F.cfg
    model, spec, P0, allp = scanners.product(F, 'polling')
    fk = model.sub_key('feed')
    merged, order = {}, []
    rank = {'proved': 0, 'unproven': 1, 'refuted': 2}
    labels = set()
    for k in sorted(allp):
        if tier != 'thorough' and k not in (0, 15):
            continue          # the product (all 16 channels) already ties every channel to the same automaton
        res, org = observe_channel(F, spec, allp[k], cfg)
        labels |= {o for d in org.values() for s in d.values() for o in s}
        for okey, (status, why, found) in res:
            if okey not in merged:
                order.append(okey)
                merged[okey] = (status, why, found)
            elif rank[status] > rank[merged[okey][0]]:
                merged[okey] = (status, why, found)
    for okey in order:
        status, why, found = merged[okey]
        chk.ob(okey, 'token accounting on the transition rows', status, subject=fn_subject(F, fk),
               expected='provenance / completeness / linearity / no-loss / shape clauses of C14', found=found, why=why)
    chk.extra['origin_labels'] = sorted(labels)


def observe_channel(F, spec, P, cfg):
    org = origins_fixpoint(P)
    res = []
    for key in P.order:
        cs, ss, cons, label = P.pairs[key]
        tag = ss[0]
        shape = A.spec_shape(ss)
        oin = org[key]
        for cname, kind, rng in spec.classes:
            rows = [r for r in P.rows if r.pair_key == key and r.cname == cname and r.outcome_kind == 'return' and r.outputs is not None]
            if not rows:
                continue
            okey = '%s/accounting/%s/%s/%s' % (PID, cfg, shape, cname)
            status, why = 'proved', ''

            def bad(txt):
                return 'refuted', 'channel %d, state %s, input %s: %s' % (P.channel, A.typestate_label(F, cs), cname, txt)
            for r in rows:
                outs = r.outputs
                cons_o = r.cons_out
                # complete: nothing before the number is complete
                if tag in ('E', 'M', 'L') and outs:
                    status, why = bad('reports %d message(s) although the parameter number is incomplete' % len(outs))
                # shape
                if len(outs) == 2:
                    i14a, dta = H.scalar_of(outs[0].get('is_14_bit')), outs[0].get('data_type')
                    dtb = outs[1].get('data_type')
                    ok = kind == 'cc' and cname in ('CC.96', 'CC.97') and tag == 'P6' and i14a is not None and i14a.term == C(0) \
                        and H.variant_name(F, dta) == 'DataEntry' and H.variant_name(F, dtb) in ('DataIncrement', 'DataDecrement')
                    if not ok:
                        status, why = bad('two messages outside increment/decrement-after-pending-MSB, or not data entry first')
                if len(outs) > 2 or (kind == 'poll' and len(outs) > 1):
                    status, why = bad('%d messages' % len(outs))
                pending_reported = 0
                for m in outs:
                    ch = H.scalar_of(m.get('channel'))
                    want_ch = C(P.channel) if kind == 'poll' else H.t_low_nibble(A.CUR_STATUS, cons_o)
                    if ch is None or not H.same(ch.term, want_ch, cons_o):
                        status, why = bad('reported channel is not the channel of the triggering call')
                    num = H.scalar_of(m.get('number'))
                    hi_o = bit_origins(num.term, cons_o, oin, cname, 7, 14) if num else None
                    lo_o = bit_origins(num.term, cons_o, oin, cname, 0, 7) if num else None
                    if hi_o is None or lo_o is None or not hi_o <= NUM_MSB or not lo_o <= NUM_LSB:
                        status, why = bad('parameter number bits come from %r / %r, expected number MSB / LSB bytes' % (hi_o, lo_o))
                    val = H.scalar_of(m.get('value'))
                    i14 = H.scalar_of(m.get('is_14_bit'))
                    dt = H.variant_name(F, m.get('data_type')) if isinstance(m.get('data_type'), Ag) else None
                    if val is None or i14 is None or i14.term not in (C(0), C(1)) or dt is None:
                        status, why = bad('value / resolution / data type not definite')
                        continue
                    vlo = bit_origins(val.term, cons_o, oin, cname, 0, 7)
                    vhi = bit_origins(val.term, cons_o, oin, cname, 7, 14)
                    if dt in ('DataIncrement', 'DataDecrement'):
                        if i14.term != C(0) or vlo != {'cv@%s(current)' % cname} or vhi:
                            status, why = bad('increment/decrement value comes from %r' % (vlo,))
                    elif i14.term == C(0):
                        # 7-bit data entry: a *stored* controller-6 value (received before this call), pending in this state
                        if vlo != {'cv@CC.6'} or vhi:
                            status, why = bad('7-bit value comes from %r, expected a previously received controller-6 value' % (vlo,))
                        if tag != 'P6':
                            status, why = bad('7-bit data entry reported from a state without a pending MSB (duplicate or fabricated)')
                        pending_reported += 1
                    else:
                        ok_hi = vhi is not None and vhi <= {'cv@CC.6', 'cv@CC.6(current)'} and len(vhi) >= 1
                        ok_lo = vlo is not None and vlo <= {'cv@CC.38', 'cv@CC.38(current)'} and len(vlo) >= 1
                        if not (ok_hi and ok_lo):
                            status, why = bad('14-bit value comes from %r / %r, expected controller 6 / controller 38' % (vhi, vlo))
                        if kind != 'poll' and not ((vhi == {'cv@CC.6(current)'}) or (vlo == {'cv@CC.38(current)'})):
                            status, why = bad('14-bit value does not include the current message')
                        if tag == 'P6' and cname == 'CC.38':
                            pending_reported += 1       # the pending MSB becomes part of the 14-bit value
                # linear / no loss for the pending controller-6 token
                if tag == 'P6' and kind != 'reset':
                    still = r.spec_out is not None and r.spec_out[0] == 'P6' and r.rename is not None and \
                        r.rename.get(ss[5]) is not None and r.spec_out[5] == ss[5]
                    contributing = kind == 'cc' and cname in ('CC.6', 'CC.38', 'CC.96', 'CC.97', 'CC.98', 'CC.99', 'CC.100', 'CC.101')
                    expired = kind == 'poll' and A.elapsed_vs_timeout(r.preds)[0] is False
                    if contributing or expired:
                        if pending_reported != 1:
                            status, why = bad('pending controller-6 value reported %d times (must be exactly once)' % pending_reported)
                    else:
                        if pending_reported != 0 or not r.identity:
                            status, why = bad('pending controller-6 value touched by a non-contributing input')
            res.append((okey, (status, why, [scanners.describe_row(F, r) for r in rows[:2]])))
    return res, org


def run(tier, cmd):
    chk = Check(PID, tier, 'other',
                'origin-token accounting (fixpoint over the extracted transition rows) checked row by row against the clauses of the '
                'property, on top of the product of the extracted transition function with the reference automaton O4',
                cmd, trusted_base=TRUSTED + ['Instant / Duration (uninterpreted)'],
                assumptions=['poll outcomes are split on the recorded predicate elapsed(arrival) < timeout'],
                explanation='Decides on the abstract automaton (exhaustive over reachable abstract states x input classes, hence for arbitrary '
                            'interleavings of messages, polls, resets and time): provenance of every reported field from actually received bytes, '
                            'nothing before a complete number, the pending controller-6 value is reported exactly once (never twice, never as 7-bit '
                            'after joining a 14-bit value, never lost except by reset), two messages only for inc/dec after a pending MSB with the '
                            'data entry first. Multi-channel interleaving reduces to this by C15.')
    Fs = load_configs(chk, ['K1'], required=('K1',))
    for cfg, F in sorted(Fs.items()):
        guarded(chk, '%s/product/%s' % (PID, cfg), 'product with the reference automaton',
                lambda F=F: scanners.cell_obligations(chk, F, 'polling', 'product with the reference automaton'))
        guarded(chk, '%s/accounting/%s' % (PID, cfg), 'token accounting on the transition rows', lambda F=F: observe(chk, F, tier))
    return chk.finish()
