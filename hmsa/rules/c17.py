"""C17 — reset() is equivalent to starting over.

  element reset   on every reachable typestate the element's reset yields a store structurally equal
                  to the element's initial value (polling: with the timeout token preserved): the
                  successor pair of every reset row is an initial pair of the product
  outer reset     interpreted from an arbitrary scanner (16 unconstrained elements; the loop over the
                  array is unrolled by the interpreter, whatever its spelling): every element ends
                  equal to the default element, timeouts preserved
  new / default   new() == default() structurally; polling: default() == new(Duration::default())
  copies          scanner types are Copy and hold plain data only (no sharing)
  determinism     feed / poll / reset read nothing but *self and their arguments (no statics, no
                  interior mutability), so structurally equal states have equal futures
"""
from .. import terms as T, automata as A
from ..terms import VS, C
from ..interp import Interp, Sc, Ag, Ar, Rf, Un, val_key
from ..models import find_impl
from ..report import Check, fn_subject
from .. import harness as H
from .common import load_configs, guarded, TRUSTED
from . import scanners
from .c15 import plain_data

PID = 'C17'
DUR = {'k': 'adt', 'path': 'core::time::Duration', 'krate': 'core', 'args': []}


def element_reset(chk, F, which):
    """reset rows of the product, per concrete channel: the outer reset leads every reachable typestate of element k
    (all 16 views) to the initial typestate, keeping the timeout"""
    cfg = F.cfg
    model, spec, P0, allp = scanners.product(F, which)
    rank = {'proved': 0, 'unproven': 1, 'refuted': 2}
    merged, order = {}, []
    for k in sorted(allp):
        P = allp[k]
        init_keys = {kk: label for label, kk in P.init_keys}
        for key in P.order:
            cs, ss, cons, label = P.pairs[key]
            rows = [r for r in P.rows if r.pair_key == key and r.kind == 'reset']
            status, why = 'proved', ''
            if not rows:
                status, why = 'unproven', 'no reset row'
            for r in rows:
                if r.outcome_kind != 'return' or r.next_key is None:
                    status, why = ('refuted' if r.outcome_kind == 'panic' or r.code_out is not None else 'unproven'), \
                        '%s %s' % (r.outcome_kind, r.why or ('after reset the state of channel %d is %s' % (k, A.typestate_label(F, r.code_out)) if r.code_out is not None else ''))
                elif r.next_key not in init_keys:
                    status, why = 'refuted', 'after reset the state of channel %d is %s, a new scanner has %s' % (
                        k, A.typestate_label(F, r.code_out), [A.typestate_label(F, P.pairs[x][0]) for x in init_keys])
                elif spec.has_poll:
                    # timeout preserved: the initial pair reached must be the one with the same timeout term
                    t_in, t_out = ss[1], r.spec_out[1]
                    if repr(t_in) != repr(t_out):
                        status, why = 'refuted', 'reset changes the timeout'
            shape = A.spec_shape(ss)
            cur = (status, why, [A.typestate_label(F, r.code_out) for r in rows if r.code_out is not None][:1])
            if shape not in merged:
                order.append(shape)
                merged[shape] = cur
            elif rank[status] > rank[merged[shape][0]]:
                merged[shape] = cur
    for shape in order:
        status, why, found = merged[shape]
        chk.ob('%s/element-reset/%s/%s/%s' % (PID, cfg, which, shape), 'reset yields the initial value', status,
               subject=fn_subject(F, model.sub_key('reset')), expected='structurally equal to the state of a new scanner (timeout kept), on all 16 channels',
               found=found, why=why)
    chk.floor('channels_%s_%s' % (which, cfg), 16, len(allp))


def _wild(v):
    """value key with clock / duration values as wildcards"""
    def w(x):
        if isinstance(x, Sc):
            if x.ty is not None and x.ty.get('k') == 'adt' and x.ty.get('path') in ('std::time::Instant', 'core::time::Duration'):
                return Sc(T.T('*', 'opaque'), x.ty)
            return x
        if isinstance(x, Ag):
            return Ag(x.path, x.variant, [w(f) for f in x.fields])
        if isinstance(x, Ar):
            return Ar([w(e) for e in x.elems])
        return x
    return val_key(w(v))


def outer_clauses(chk, F, which):
    from .c13 import opaque_tokens
    cfg = F.cfg
    model, spec, P, allp = scanners.product(F, which)
    hit = find_impl(Interp(F), 'core::default::Default', 'default', [model.outer_ty])
    I = Interp(F)
    d_outs = I.run(hit[0], [], hit[1]) if hit else []
    dval = d_outs[0].value if len(d_outs) == 1 and d_outs[0].kind == 'return' else None
    delem = model.elem(dval, 0) if model.arrays_ok(dval) else None
    # ---- outer reset from an arbitrary (not only reachable) scanner
    key = '%s/outer-reset/%s/%s' % (PID, cfg, which)

    def ev():
        if 'reset' not in model.methods:
            return chk.ob(key, 'outer reset covers every element', 'refuted', why='the scanner has no reset method')
        if delem is None:
            return chk.ob(key, 'outer reset covers every element', 'unproven', why='default() of the scanner could not be interpreted')
        status, why = 'proved', ''
        for j in range(16):
            # element j in an arbitrary (not only reachable) state, the others as in a new scanner
            I = Interp(F)
            st = I.new_state()
            selfv = I.top_of(st, model.outer_ty, 'scanner')
            for ap in model.arrays:
                selfv = model.put(selfv, ap, Ar([model.get(selfv, ap).elems[i] if i == j else model.get(dval, ap).elems[i] for i in range(16)]))
            st.root().locals['self'] = selfv
            outs = I.run(model.methods['reset'][0], [Rf(0, 'self', (), True)], [], st)
            outs = [o for o in outs if o.kind != 'dead']
            if not outs or any(o.kind != 'return' for o in outs):
                return chk.ob(key, 'outer reset covers every element', 'unproven' if not any(o.kind == 'panic' for o in outs) else 'refuted',
                              subject=fn_subject(F, model.methods['reset'][0]), why='element %d arbitrary: outcomes %r' % (j, sorted(set((o.kind, o.why) for o in outs))[:3]))
            shared_b = set()
            for ep in model.extra:
                shared_b |= opaque_tokens(model.get(selfv, ep))
            for o in outs:
                after = o.st.root().locals['self']
                if not model.arrays_ok(after):
                    return chk.ob(key, 'outer reset covers every element', 'unproven', why='array shape %r' % (after,))
                for i in range(16):
                    a = model.elem(after, i)
                    b = model.elem(selfv, i)
                    if _wild(a) != _wild(delem):
                        status, why = 'refuted', 'element %d after reset is %r, a new element is %r' % (i, a, delem)
                    elif not opaque_tokens(a) <= (opaque_tokens(b) | shared_b):
                        status, why = 'refuted', 'element %d after reset holds a timeout / time value %r that it did not hold before' % (i, sorted(opaque_tokens(a) - opaque_tokens(b)))
                for ep in model.extra:
                    fb, fa = model.get(selfv, ep), model.get(after, ep)
                    if val_key(fa) != val_key(fb) and (opaque_tokens(fa) or dval is None or val_key(fa) != val_key(model.get(dval, ep))):
                        status, why = 'refuted', 'field %s after reset is %r (neither kept nor the value of a new scanner)' % (model.leaf_name[ep], fa)
        chk.ob(key, 'outer reset covers every element', status, subject=fn_subject(F, model.methods['reset'][0]),
               expected='each element in turn in an arbitrary state: all 16 elements equal to a new element afterwards (timeouts kept)',
               found='16 x 16 elements compared', why=why)
    guarded(chk, key, 'outer reset covers every element', ev)
    # ---- new vs default
    key2 = '%s/new-default/%s/%s' % (PID, cfg, which)

    def ev2():
        newk = model.outer + '::new'
        I = Interp(F)
        if spec.has_poll:
            arg = Sc(('app', 'Duration::default', ()), DUR)
            outs = I.run(newk, [arg], [])
        else:
            outs = I.run(newk, [], [])
        ok = len(outs) == 1 and outs[0].kind == 'return' and dval is not None and val_key(outs[0].value) == val_key(dval)
        chk.ob(key2, 'new equals default', 'proved' if ok else 'refuted', subject=fn_subject(F, newk),
               expected='new(%s) structurally equal to default()' % ('Duration::default()' if spec.has_poll else ''),
               found=[repr(o.value)[:120] for o in outs], why='' if ok else 'values differ')
        # PartialEq is the builtin derive (structural equality is what == observes)
        from ..models import builtin_derive
        for ty in [t for t in (model.outer, model.sub) if t and t in F.adts]:
            # (an element type from core - Option, a tuple - compares structurally by core's own derive; the scanner-private
            # types it contains are reached through the fields of the outer type and are audited as part of C15's plain-data rule)
            ims = [im for im in F.impls if im.get('trait') == 'core::cmp::PartialEq' and im['self']['k'] == 'adt' and im['self']['path'] == ty]
            okd = len(ims) == 1 and builtin_derive(ims[0])
            chk.ob('%s/eq-is-structural/%s/%s/%s' % (PID, cfg, which, ty.split('::')[-1]), 'derived equality', 'proved' if okd else 'unproven',
                   expected='PartialEq is the builtin derive', found=[im['span']['macros'][:1] for im in ims], nontrivial=False)
    guarded(chk, key2, 'new equals default', ev2)
    # ---- copies are independent, behaviour is a function of the state
    r = plain_data(F, model.outer_ty)
    cp = F.adts[model.outer]['copy']
    chk.ob('%s/copy-independent/%s/%s' % (PID, cfg, which), 'plain data', 'proved' if (r is None and cp) else 'refuted',
           expected='Copy type holding plain data only', found=r or 'plain, Copy=%s' % cp, nontrivial=False)


def run(tier, cmd):
    chk = Check(PID, tier, 'proof',
                'reset rows of the three extracted automata lead to initial pairs; abstract interpretation of the outer reset from an '
                'unconstrained scanner (loop unrolled over the 16 elements) compared field by field with the default element; structural '
                'comparison of new()/default(); plain-data and derive audits',
                cmd, trusted_base=TRUSTED + ['Duration::default() is the zero duration'],
                assumptions=['feed/poll/reset are deterministic functions of *self and their arguments (no statics or interior mutability: C15 audit; clock excepted, C13)'],
                explanation='')
    Fs = load_configs(chk, ['K1', 'K2'], required=('K1',))
    for cfg, F in sorted(Fs.items()):
        st = [s for s in F.statics]
        chk.ob('%s/no-statics/%s' % (PID, cfg), 'plain data', 'proved' if not st else 'refuted', expected='no static item', found=[s['path'] for s in st], nontrivial=False)
        for which in ('cc14', 'pn', 'polling'):
            if which == 'polling' and 'std' not in F.features:
                continue
            guarded(chk, '%s/element-reset/%s/%s' % (PID, cfg, which), 'reset yields the initial value', lambda F=F, which=which: element_reset(chk, F, which))
            guarded(chk, '%s/outer/%s/%s' % (PID, cfg, which), 'outer reset covers every element', lambda F=F, which=which: outer_clauses(chk, F, which))
    return chk.finish()
