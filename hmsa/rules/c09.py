"""C09 — (N)RPN messages encode to the well-formed Control Change sequence.

  constructors  the eight public constructors place their arguments in the fields the accessors
                return (fields located through the accessors, not by name) with the documented
                resolution / data type constants
  encoder       to_short_messages interpreted for an abstract factory per (data type, resolution,
                registered, byte order) case: the four slots equal the oracle table by bit provenance
  array         From<ParameterNumberMessage> for [Option<T>; 4] equals MSB-first encoding
  invariant     7-bit => value <= 127, 14-bit => data entry: audited at every construction site (C04 audit)
"""
from .. import terms as T, audit, scan, invariants
from ..terms import VS, C, vs_of
from ..interp import Interp, Sc, Ag, Ar, Un, Rf
from ..entry import entry_args
from ..models import find_impl
from ..report import Check, fn_subject, site_subject
from ..spec import midi
from .. import harness as H, automata as A, view
from .common import load_configs, guarded, TRUSTED
from . import c01, c06

PID = 'C09'
PNM = A.PNM
DATATYPE = A.DATATYPE
ORDER = 'parameter_number_message::DataEntryByteOrder'

# constructor -> (registered, 14 bit, data type)
CONSTRUCTORS = {
    'non_registered_7_bit': (0, 0, 'DataEntry'), 'non_registered_14_bit': (0, 1, 'DataEntry'),
    'non_registered_decrement': (0, 0, 'DataDecrement'), 'non_registered_increment': (0, 0, 'DataIncrement'),
    'registered_7_bit': (1, 0, 'DataEntry'), 'registered_14_bit': (1, 1, 'DataEntry'),
    'registered_decrement': (1, 0, 'DataDecrement'), 'registered_increment': (1, 0, 'DataIncrement'),
}


def pnm_value(F, roles, ch, number, value, reg, is14, dtype, cons=None):
    """an abstract ParameterNumberMessage with the given accessor values (reg / is14: constant terms)"""
    return view.build_pnm(F, ch, number, value, int(reg[1]), int(is14[1]), dtype, cons or {})


def role_of(F, v, role, st):
    return view.role_value(F, v, role, st.cons, st.ntok)


def constructors_clause(chk, F, roles):
    cfg = F.cfg
    n = 0
    computed = [k[1] for k, v in roles.items() if k[0] == PNM and v is None]
    missing = [n for n in view.ACCESSORS[PNM] if PNM + '::' + n not in F.fns]
    chk.ob('%s/accessors/%s' % (PID, cfg), 'accessors', 'proved' if not missing else 'refuted',
           expected='channel/number/value/is_registered/is_14_bit/data_type exist; what they return for a constructed message is decided per constructor',
           found=('missing: %s' % missing) if missing else ('stored fields returned as they are' if not computed else 'computed from the representation: %s' % sorted(computed)),
           nontrivial=False)
    if missing:
        return
    for name, (reg, is14, dt) in sorted(CONSTRUCTORS.items()):
        fk = PNM + '::' + name
        key = '%s/constructor/%s/%s' % (PID, cfg, name)
        if fk not in F.fns:
            chk.ob(key, 'constructor fields', 'refuted', expected='constructor exists', found='missing', nontrivial=False)
            continue
        n += 1

        def ev(fk=fk, key=key, reg=reg, is14=is14, dt=dt):
            I = Interp(F)
            st = I.new_state()
            args = entry_args(I, st, F.fns[fk], [])
            outs = I.run(fk, args, [], st)
            status, why = 'proved', ''
            if len(outs) != 1 or outs[0].kind != 'return':
                return chk.ob(key, 'constructor fields', 'refuted' if any(o.kind == 'panic' for o in outs) else 'unproven',
                              subject=fn_subject(F, fk), why='outcomes %r' % [o.kind for o in outs])
            o = outs[0]
            v = o.value
            want = {'channel': H.scalar_of(args[0]).term, 'number': H.scalar_of(args[1]).term, 'value': H.scalar_of(args[2]).term,
                    'is_registered': C(reg), 'is_14_bit': C(is14)}
            for role, wt in want.items():
                g = H.scalar_of(role_of(F, v, role, o.st))
                if g is None or not H.same(g.term, wt, o.st.cons):
                    status, why = 'refuted', '%s is %r, expected %s' % (role, g, T.tstr(wt))
            g = role_of(F, v, 'data_type', o.st)
            if not isinstance(g, Ag) or H.variant_name(F, g) != dt:
                status, why = 'refuted', 'data type %r, expected %s' % (g, dt)
            if not is14:
                vv = vs_of(H.scalar_of(role_of(F, v, 'value', o.st)).term, o.st.cons)
                if not vv.subset(VS(0, 127)):
                    status, why = 'refuted', '7-bit message with value in %r' % vv
            chk.ob(key, 'constructor fields', status, subject=fn_subject(F, fk), expected=repr((reg, is14, dt)), found=repr(v), why=why)
        guarded(chk, key, 'constructor fields', ev)
    chk.floor('pnm_constructors', 8, n)


SHORTHANDS = {'nrpn': (0, 0, 127), 'nrpn_14_bit': (0, 1, 16383), 'rpn': (1, 0, 127), 'rpn_14_bit': (1, 1, 16383)}


def shorthand_clause(chk, F, roles):
    """test_util::{nrpn, nrpn_14_bit, rpn, rpn_14_bit}: panic exactly out of range, otherwise the data-entry message of the arguments"""
    cfg = F.cfg
    for name, (reg, is14, vmax) in sorted(SHORTHANDS.items()):
        fk = 'test_util::' + name
        key = '%s/shorthand/%s/%s' % (PID, cfg, name)

        def ev(fk=fk, key=key, reg=reg, is14=is14, vmax=vmax):
            if fk not in F.fns:
                return chk.ob(key, 'constructor fields', 'unproven', why='%s not found' % fk)
            I = Interp(F)
            st = I.new_state()
            args = entry_args(I, st, F.fns[fk], [])
            outs = I.run(fk, args, [], st)
            want = [VS(0, 15), VS(0, 16383), VS(0, vmax)]
            acc = [VS.of([]), VS.of([]), VS.of([])]
            status, why = 'proved', ''
            for o in outs:
                vs = [vs_of(a.term, o.st.cons) for a in args]
                if o.kind == 'return':
                    acc = [x.join(v) for x, v in zip(acc, vs)]
                    wantf = {'channel': args[0].term, 'number': args[1].term, 'value': args[2].term, 'is_registered': C(reg), 'is_14_bit': C(is14)}
                    for role, wt in wantf.items():
                        g = H.scalar_of(role_of(F, o.value, role, o.st))
                        if g is None or not H.same(g.term, wt, o.st.cons):
                            status, why = 'refuted', '%s is %r' % (role, g)
                    g = role_of(F, o.value, 'data_type', o.st)
                    if not isinstance(g, Ag) or H.variant_name(F, g) != 'DataEntry':
                        status, why = 'refuted', 'data type %r' % (g,)
                    if any(not v.subset(w) for v, w in zip(vs, want)):
                        status, why = 'refuted', 'returns for out-of-range arguments %r' % (vs,)
                elif o.kind == 'panic':
                    if all(not v.meet(w).empty() for v, w in zip(vs, want)):
                        status, why = 'refuted', 'panics although every argument can be in range: %r' % (vs,)
                else:
                    status, why = 'unproven', o.kind
            if status == 'proved' and acc != want:
                status, why = 'refuted', 'accepted arguments %r, expected %r' % (acc, want)
            chk.ob(key, 'constructor fields', status, subject=fn_subject(F, fk), expected='data entry message of the arguments; panic exactly out of range',
                   found=sorted(set(o.kind for o in outs)), why=why)
        guarded(chk, key, 'constructor fields', ev)


def expected_slots(ch, number, value, reg, is14, dt, order, cons):
    num = [(101 if reg else 99, H.t_high7(number, cons)), (100 if reg else 98, H.t_low7(number, cons))]
    if dt == 'DataEntry':
        if is14:
            msb = (6, H.t_high7(value, cons))
            lsb = (38, H.t_low7(value, cons))
            rest = [msb, lsb] if order == 'MsbFirst' else [lsb, msb]
        else:
            rest = [(6, value), None]
    else:
        rest = [(96 if dt == 'DataIncrement' else 97, value), None]
    return num + rest


def slot_matches(slot, want, ch, cons):
    p = H.opt_payload(slot)
    if want is None:
        return p == ('none',), 'expected empty slot, got %r' % (slot,)
    if not p or p[0] != 'some' or not (isinstance(p[1], Ag) and p[1].path == H.FBU):
        return False, 'expected a message, got %r' % (slot,)
    tup = p[1].fields[0]
    got = c06.tuple_bits(tup, cons)
    wb = [T.bits_of(T.mk_op('BitOr', C(0xB0), ch, None, cons), cons, 8), T._cbits(want[0], 8), T.bits_of(want[1], cons, 8)]
    return got == wb, 'bytes (%s), expected (%s)' % (c06.fmt_bits(got), c06.fmt_bits(wb))


CH, NUM, VAL = T.T('m.channel', 'u8'), T.T('m.number', 'u16'), T.T('m.value', 'u16')


def encoder_clause(chk, F, roles):
    cfg = F.cfg
    fk = PNM + '::to_short_messages'
    cases = []
    for dt, is14 in (('DataEntry', 0), ('DataEntry', 1), ('DataIncrement', 0), ('DataDecrement', 0)):
        for reg in (0, 1):
            for order in ('MsbFirst', 'LsbFirst'):
                cases.append((dt, is14, reg, order))
    for dt, is14, reg, order in cases:
        key = '%s/encoder/%s/%s.%s.%s.%s' % (PID, cfg, dt, '14bit' if is14 else '7bit', 'registered' if reg else 'nonregistered', order)

        def ev(dt=dt, is14=is14, reg=reg, order=order, key=key):
            cons = {CH: VS(0, 15), NUM: VS(0, 16383), VAL: VS(0, 16383 if is14 else 127)}
            selfv = pnm_value(F, roles, CH, NUM, VAL, C(reg), C(is14), dt, cons)
            hooks = {}
            hooks.update(H.fbu_hook())
            I = Interp(F, abstract_methods=hooks)
            st = I.new_state()
            st.cons.update(cons)
            st.root().locals['self'] = selfv
            ordv = Ag(ORDER, H.variant_index(F, ORDER, order), ())
            outs = I.run(fk, [Rf(0, 'self', ()), ordv], [H.param('T', 0)], st)
            status, why, found = 'proved', '', []
            for o in outs:
                if o.kind != 'return' or not isinstance(o.value, Ar) or len(o.value.elems) != 4:
                    status, why = ('refuted' if o.kind == 'panic' else 'unproven'), '%s outcome: %r %s' % (o.kind, o.value, o.why)
                    continue
                want = expected_slots(CH, NUM, VAL, reg, is14, dt, order, o.st.cons)
                for i, (slot, w) in enumerate(zip(o.value.elems, want)):
                    ok, txt = slot_matches(slot, w, CH, o.st.cons)
                    if not ok:
                        status, why = 'refuted', 'slot %d: %s' % (i, txt)
                found.append(repr(o.value)[:200])
            chk.ob(key, 'encoder table', status, subject=fn_subject(F, fk),
                   expected='[number MSB, number LSB, value byte(s)] per MIDI 1.0', found=found[:1], why=why)
        guarded(chk, key, 'encoder table', ev)
    # array conversion == MSB-first
    key = '%s/array-conversion/%s' % (PID, cfg)

    def ev2():
        tparam = H.param('T', 0)
        arr_ty = {'k': 'array', 'len': 4, 'ty': {'k': 'adt', 'path': 'core::option::Option', 'krate': 'core', 'args': [tparam]}}
        hit = find_impl(Interp(F), 'core::convert::From', 'from', [arr_ty, H.adt_ty(PNM)])
        if not hit:
            return chk.ob(key, 'encoder table', 'unproven', why='From<ParameterNumberMessage> for [Option<T>; 4] not found')
        status, why = 'proved', ''
        for dt, is14 in (('DataEntry', 0), ('DataEntry', 1), ('DataIncrement', 0)):
            cons = {CH: VS(0, 15), NUM: VS(0, 16383), VAL: VS(0, 16383 if is14 else 127)}
            selfv = pnm_value(F, roles, CH, NUM, VAL, C(1), C(is14), dt, cons)
            I = Interp(F, abstract_methods=H.fbu_hook())
            st = I.new_state()
            st.cons.update(cons)
            outs = I.run(hit[0], [selfv], [tparam], st)
            for o in outs:
                if o.kind != 'return' or not isinstance(o.value, Ar):
                    status, why = 'unproven', o.kind
                    continue
                want = expected_slots(CH, NUM, VAL, 1, is14, dt, 'MsbFirst', o.st.cons)
                for i, (slot, w) in enumerate(zip(o.value.elems, want)):
                    ok, txt = slot_matches(slot, w, CH, o.st.cons)
                    if not ok:
                        status, why = 'refuted', '%s/%s slot %d: %s' % (dt, is14, i, txt)
        chk.ob(key, 'encoder table', status, subject=fn_subject(F, hit[0]), expected='equals to_short_messages(MsbFirst)', found='', why=why)
    guarded(chk, key, 'encoder table', ev2)


def invariant_clause(chk, F, path, label):
    """struct-invariant audit of all construction sites of `path` outside deserialization"""
    cfg = F.cfg
    Aud = audit.get(F)
    sites = [s for s, p, v in scan.aggregate_sites(F, {path}) if not scan.is_serde_generated(F, s[0])]
    chk.floors['%s_ctor_sites_%s' % (label, cfg)] = [1, len(sites)]
    for site in sites:
        obs = Aud.ctor.get(site, [])
        f = F.fns[site[0]]
        key = '%s/invariant-site/%s/%s' % (chk.pid, cfg, site[0])
        status, why = 'proved', ''
        if f.get('unsafe'):
            chk.ob(key, 'struct invariant at construction site', 'proved', subject=site_subject(F, site), found='unsafe fn', nontrivial=False)
            continue
        if not obs:
            status, why = 'unproven', 'site not reached by the audit'
        for (p, variant, fields, extra, stack) in obs:
            if extra is None or extra[0] is None:
                status, why = 'unproven', (extra[1] if extra else 'no invariant evaluation')
            elif extra[0] is False:
                status, why = 'refuted', '%s (reached from %s)' % (extra[1], stack[0] if stack else '?')
        chk.ob(key, 'struct invariant at construction site', status, subject=site_subject(F, site),
               expected='invariant of %s established by the operands' % label, found=[o[3][1] for o in obs if o[3]][:2], why=why)


def run(tier, cmd):
    chk = Check(PID, tier, 'other',
                'abstract interpretation of the eight constructors and of to_short_messages (abstract factory) per '
                '(data type x resolution x registered x byte order) case; slots compared with the MIDI 1.0 oracle table by bit provenance; '
                'struct-invariant audit of every ParameterNumberMessage construction site',
                cmd, trusted_base=TRUSTED, assumptions=['newtype fields in range (C04)'],
                explanation='Decides all clauses of C09 for every factory that inherits the control_change default (C06): constructor fields and '
                            'constants, accessors, the 16 encoder cases (controller numbers 101/100 or 99/98, 6, 38, 96, 97; 7-bit splits of number '
                            'and value; fourth slot filled exactly for 14-bit), the array conversion, and the 7-bit/14-bit consistency invariant at '
                            'all construction sites. The factory-specific byte placement is C06/C01.')
    Fs = load_configs(chk, ['K1', 'K2'], required=('K1',))
    for cfg, F in sorted(Fs.items()):
        roles = A.msg_roles(F)
        guarded(chk, '%s/constructors/%s' % (PID, cfg), 'constructor fields', lambda F=F: constructors_clause(chk, F, roles))
        guarded(chk, '%s/encoder/%s' % (PID, cfg), 'encoder table', lambda F=F: encoder_clause(chk, F, roles))
        guarded(chk, '%s/shorthand/%s' % (PID, cfg), 'constructor fields', lambda F=F: shorthand_clause(chk, F, roles))
        guarded(chk, '%s/invariant/%s' % (PID, cfg), 'struct invariant at construction site', lambda F=F: invariant_clause(chk, F, PNM, 'ParameterNumberMessage'))
    return chk.finish()
