"""C08 — the 14-bit Control Change scanner reports exactly the justified messages.

The per-channel transition function is extracted from the MIR over symbolic typestates and checked,
cell by cell, against the reference automaton O2 on every reachable (code state, reference state)
pair; both are deterministic and the product is closed, so agreement for all histories follows by
induction on the history length.
"""
from ..report import Check
from .common import load_configs, guarded, TRUSTED
from . import scanners

PID = 'C08'


def run(tier, cmd):
    chk = Check(PID, tier, 'model_checking',
                'abstract one-step transition function of the per-channel scanner (abstract interpretation over symbolic '
                'typestates with origin tokens) in synchronous product with the reference automaton O2; every reachable pair x '
                'every input class (CC 0-31, CC 32-63 split on the recorded predicate cn = msb+32, CC 64-127, non-CC, reset)',
                cmd, trusted_base=TRUSTED,
                assumptions=['messages fed satisfy the ShortMessage contract (valid status byte, 7-bit data bytes)'],
                explanation='Exhaustive over the abstract (value-independent) state space: the product has a fixpoint of a handful of pairs; '
                            'each cell compares the reported message (channel, MSB controller number, 14-bit value) by bit provenance with the '
                            'reference, including the stale-MSB replacement and the LSB-alone re-report cells. Channel routing is C15.')
    Fs = load_configs(chk, ['K1', 'K2'], required=('K1',))
    for cfg, F in sorted(Fs.items()):
        r = guarded(chk, '%s/product/%s' % (PID, cfg), 'product with the reference automaton',
                    lambda F=F: scanners.cell_obligations(chk, F, 'cc14', 'product with the reference automaton'))
        if r:
            model, spec, P = r
            chk.floor('reachable_pairs_cc14_%s' % cfg, 2, len(P.pairs))
            chk.extra['traces_validated_against_impl'] = 0
            chk.extra['exhaustive'] = True
    return chk.finish()
