"""Shared plumbing for the per-property rule modules."""
import traceback

from .. import facts
from ..report import Check, site_subject, fn_subject
from ..spec import midi

TRUSTED = [
    'rustc front end and MIR lowering (nightly used as analyser; same language semantics as the stable build)',
    'builtin derives and core primitive operations as modelled in hmsa/models.py',
    'the analyser itself (driver + python), validated both ways by selftest/ and seeded/',
]


def load_configs(chk, cfgs, required=()):
    """load facts; a configuration that does not build is a violation for properties that quantify
    over it (required) and a documented fallback otherwise"""
    ok, errors = facts.load_many(cfgs)
    for c, e in errors.items():
        if c in required:
            chk.ob('%s/builds/%s' % (chk.pid, c), 'configuration must build', 'refuted',
                   subject={'config': c}, expected='crate compiles in %s' % facts.CONFIG_DESC[c], found=e.msg[:300],
                   why='the property quantifies over this feature configuration', nontrivial=False)
        else:
            chk.extra.setdefault('configs_skipped', []).append('%s: %s' % (c, e.msg[:200]))
    chk.extra['configs'] = {c: facts.CONFIG_DESC[c] for c in ok}
    chk.extra['bodies_exported'] = {c: f.n_bodies() for c, f in ok.items()}
    return ok


import os as _os
import time as _time
# wall-clock budget of one check process: past it every remaining obligation evaluator is skipped and reported
# *unproven* (fail closed) instead of letting a pathological input run for hours
CHECK_SECONDS = float(_os.environ.get('HMSA_CHECK_SECONDS', '900'))
_T0 = _time.time()


def out_of_time():
    return _time.time() - _T0 > CHECK_SECONDS


def guarded(chk, key, rule, fn, **kw):
    """run one obligation evaluator; an analyser exception is an *unproven* obligation (fail closed)"""
    if out_of_time():
        chk.ob(key, rule, 'unproven', why='the time budget of this check (%.0f s) is exhausted; not evaluated' % CHECK_SECONDS, **kw)
        return None
    try:
        return fn()
    except Exception as e:      # noqa
        chk.ob(key, rule, 'unproven', why='analyser exception: %r\n%s' % (e, traceback.format_exc()[-600:]), **kw)
        return None


def short_ty(path):
    return midi.PATH_NEWTYPE.get(path, path.split('::')[-1])
