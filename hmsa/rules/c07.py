"""C07 — 14-bit Control Change: the encoding is correct and the scanner inverts it.

  new         outcome summary: panics exactly for MSB controller numbers 32..127
  accessors   return the stored fields; lsb_controller_number = msb + 32
  encoder     to_short_messages (abstract factory) = [CC(ch, n, high7(v)), CC(ch, n+32, low7(v))]
  inversion   from *every reachable scanner typestate* (C08 fixpoint) feeding the two encoded messages
              yields nothing, then exactly the original message (composition of extracted rows)
"""
from .. import terms as T, invariants
from ..terms import VS, C, vs_of
from ..interp import Interp, Sc, Ag, Ar, Un, Rf
from ..entry import entry_args
from ..models import find_impl
from ..report import Check, fn_subject
from .. import harness as H, automata as A, seq, view
from .common import load_configs, guarded, TRUSTED
from . import c06, c09, scanners

PID = 'C07'
CC14 = A.CC14
CH, MSB, VAL = T.T('m.channel', 'u8'), T.T('m.msb', 'u8'), T.T('m.value', 'u16')


def cc14_value(F, roles, ch, msb, val):
    return view.build_cc14(F, ch, msb, val, {ch: VS(0, 15), msb: VS(0, 31), val: VS(0, 16383)})


def role_of(F, v, role, st):
    return view.role_value(F, v, role, st.cons, st.ntok)


def new_clause(chk, F, roles):
    cfg = F.cfg
    fk = CC14 + '::new'
    key = '%s/new/%s' % (PID, cfg)

    def ev():
        I = Interp(F)
        st = I.new_state()
        args = entry_args(I, st, F.fns[fk], [])
        tok = H.scalar_of(args[1]).term
        outs = I.run(fk, args, [], st)
        status, why, found = 'proved', '', []
        ret, pan = VS.of([]), VS.of([])
        for o in outs:
            v = vs_of(tok, o.st.cons)
            found.append('%s for controller in %r' % (o.kind, v))
            if o.kind == 'return':
                ret = ret.join(v)
                want = {'channel': H.scalar_of(args[0]).term, 'msb_controller_number': tok, 'value': H.scalar_of(args[2]).term}
                for role, wt in want.items():
                    g = H.scalar_of(role_of(F, o.value, role, o.st))
                    if g is None or g.term != wt:
                        status, why = 'refuted', 'field %s is %r' % (role, g)
            elif o.kind == 'panic':
                pan = pan.join(v)
            else:
                status, why = 'unproven', o.kind
        if status == 'proved' and (ret != VS(0, 31) or pan != VS(32, 127)):
            status, why = 'refuted', 'returns for %r, panics for %r' % (ret, pan)
        chk.ob(key, 'constructor outcome summary', status, subject=fn_subject(F, fk),
               expected='message for MSB controller 0..31, panic for 32..127', found=found, why=why)
    guarded(chk, key, 'constructor outcome summary', ev)
    key2 = '%s/lsb-controller-number/%s' % (PID, cfg)

    def ev2():
        fk2 = CC14 + '::lsb_controller_number'
        cons = {CH: VS(0, 15), MSB: VS(0, 31), VAL: VS(0, 16383)}
        I = Interp(F)
        st = I.new_state()
        st.cons.update(cons)
        st.root().locals['self'] = cc14_value(F, roles, CH, MSB, VAL)
        outs = I.run(fk2, [Rf(0, 'self', ())], [], st)
        want = T.mk_op('Add', MSB, C(32), None, cons)
        # (several paths are fine - a range test by `leading_zeros` splits the controller numbers - as long as each returns msb + 32
        # and together they cover 0..31)
        ok = bool(outs) and all(o.kind == 'return' and H.scalar_of(o.value) is not None and
                                H.same(H.scalar_of(o.value).term, want, o.st.cons) for o in outs)
        cover = VS.of([])
        for o in outs:
            cover = cover.join(vs_of(MSB, o.st.cons))
        ok = ok and cover == VS(0, 31)
        chk.ob(key2, 'accessor', 'proved' if ok else 'refuted', subject=fn_subject(F, fk2), expected='msb + 32, no panic',
               found=['%s %r' % (o.kind, o.value) for o in outs])
    guarded(chk, key2, 'accessor', ev2)


def encoder_terms(cons):
    """the two encoded messages as (status, d1, d2) terms over the message tokens"""
    st = T.mk_op('BitOr', C(0xB0), CH, None, cons)
    return [(st, MSB, H.t_high7(VAL, cons)), (st, T.mk_op('Add', MSB, C(32), None, cons), H.t_low7(VAL, cons))]


def encoder_clause(chk, F, roles):
    cfg = F.cfg
    fk = CC14 + '::to_short_messages'
    key = '%s/encoder/%s' % (PID, cfg)

    def ev():
        cons = {CH: VS(0, 15), MSB: VS(0, 31), VAL: VS(0, 16383)}
        I = Interp(F, abstract_methods=H.fbu_hook())
        st = I.new_state()
        st.cons.update(cons)
        st.root().locals['self'] = cc14_value(F, roles, CH, MSB, VAL)
        outs = I.run(fk, [Rf(0, 'self', ())], [H.param('T', 0)], st)
        status, why = 'proved', ''
        for o in outs:
            if o.kind != 'return' or not isinstance(o.value, Ar) or len(o.value.elems) != 2:
                status, why = ('refuted' if o.kind == 'panic' else 'unproven'), '%s: %r %s' % (o.kind, o.value, o.why)
                continue
            want = encoder_terms(o.st.cons)
            for i, (m, w) in enumerate(zip(o.value.elems, want)):
                if not (isinstance(m, Ag) and m.path == H.FBU):
                    status, why = 'refuted', 'element %d is %r' % (i, m)
                    continue
                got = c06.tuple_bits(m.fields[0], o.st.cons)
                wb = [T.bits_of(x, o.st.cons, 8) for x in w]
                if got != wb:
                    status, why = 'refuted', 'message %d bytes (%s), expected (%s)' % (i, c06.fmt_bits(got), c06.fmt_bits(wb))
        chk.ob(key, 'encoder table', status, subject=fn_subject(F, fk),
               expected='[CC(ch, n, value >> 7), CC(ch, n + 32, value & 0x7f)]', found=[repr(o.value)[:160] for o in outs], why=why)
    guarded(chk, key, 'encoder table', ev)
    key2 = '%s/array-conversion/%s' % (PID, cfg)

    def ev2():
        tparam = H.param('T', 0)
        hit = find_impl(Interp(F), 'core::convert::From', 'from', [{'k': 'array', 'len': 2, 'ty': tparam}, H.adt_ty(CC14)])
        if not hit:
            return chk.ob(key2, 'encoder table', 'unproven', why='From<ControlChange14BitMessage> for [T; 2] not found')
        cons = {CH: VS(0, 15), MSB: VS(0, 31), VAL: VS(0, 16383)}
        I = Interp(F, abstract_methods=H.fbu_hook())
        st = I.new_state()
        st.cons.update(cons)
        outs = I.run(hit[0], [cc14_value(F, roles, CH, MSB, VAL)], [tparam], st)
        status, why = 'proved', ''
        for o in outs:
            want = encoder_terms(o.st.cons)
            ok = o.kind == 'return' and isinstance(o.value, Ar) and len(o.value.elems) == 2 and all(
                isinstance(m, Ag) and m.path == H.FBU and c06.tuple_bits(m.fields[0], o.st.cons) == [T.bits_of(x, o.st.cons, 8) for x in w]
                for m, w in zip(o.value.elems, want))
            if not ok:
                status, why = 'refuted', '%s %r' % (o.kind, o.value)
        chk.ob(key2, 'encoder table', status, subject=fn_subject(F, hit[0]), expected='same as to_short_messages', found='', why=why)
    guarded(chk, key2, 'encoder table', ev2)


def inversion_clause(chk, F, roles, channels=(0,)):
    model, spec, P0, allp = scanners.product(F, 'cc14')
    for k in channels:
        _inversion_on_channel(chk, F, roles, model, allp[k], k)


def _inversion_on_channel(chk, F, roles, model, P, k):
    cfg = F.cfg
    n = 0
    for key in P.order:
        cs, ss, cons0, label = P.pairs[key]
        okey = '%s/inversion/%s/from-%s%s' % (PID, cfg, A.spec_shape(ss), '/channel-%d' % k if k else '')

        def ev(cs=cs, cons0=cons0, okey=okey, k=k):
            cons = dict(cons0)
            cons.update({CH: VS.one(k), MSB: VS(0, 31), VAL: VS(0, 16383)})
            msgs = encoder_terms(cons)
            paths = seq.run_sequence(F, model, P.roles, cs, cons, [('feed',) + msgs[0], ('feed',) + msgs[1]], k=k)
            status, why = 'proved', ''
            if not paths:
                status, why = 'unproven', 'no path'
            for p in paths:
                if p.dead:
                    status, why = ('refuted' if 'panic' in p.dead else 'unproven'), p.dead
                    continue
                o1, o2 = p.outputs
                if o1:
                    status, why = 'refuted', 'the first (MSB) message already reports %r' % (o1,)
                    continue
                if len(o2) != 1:
                    status, why = 'refuted', 'the second message reports %d messages' % len(o2)
                    continue
                want = {'channel': CH, 'msb_controller_number': MSB, 'value': VAL}
                ok, txt = A.msg_equal(F, o2[0], want, p.cons)
                if not ok:
                    status, why = 'refuted', 'reported message is not the original: %s' % txt
            chk.ob(okey, 'encoder/scanner composition', status, subject=fn_subject(F, model.sub_key('feed')),
                   expected='None, then Some(original message)', found='%d paths' % len(paths), why=why)
        guarded(chk, okey, 'encoder/scanner composition', ev)
        n += 1
    chk.floor('start_states', 2, n)


def shorthand_clause(chk, F, roles):
    """test_util::control_change_14_bit: panics exactly for out-of-range arguments, otherwise the message of its arguments"""
    cfg = F.cfg
    fk = 'test_util::control_change_14_bit'
    key = '%s/shorthand/%s' % (PID, cfg)

    def ev():
        if fk not in F.fns:
            return chk.ob(key, 'constructor outcome summary', 'unproven', why='%s not found' % fk)
        I = Interp(F)
        st = I.new_state()
        args = entry_args(I, st, F.fns[fk], [])
        outs = I.run(fk, args, [], st)
        want = [VS(0, 15), VS(0, 31), VS(0, 16383)]
        acc = [VS.of([]), VS.of([]), VS.of([])]
        status, why = 'proved', ''
        for o in outs:
            vs = [vs_of(a.term, o.st.cons) for a in args]
            if o.kind == 'return':
                acc = [x.join(v) for x, v in zip(acc, vs)]
                for role, a in zip(('channel', 'msb_controller_number', 'value'), args):
                    g = H.scalar_of(role_of(F, o.value, role, o.st))
                    if g is None or g.term != a.term:
                        status, why = 'refuted', 'field %s is %r' % (role, g)
                if any(not v.subset(w) for v, w in zip(vs, want)):
                    status, why = 'refuted', 'returns for out-of-range arguments %r' % (vs,)
            elif o.kind == 'panic':
                if all(not v.meet(w).empty() for v, w in zip(vs, want)):
                    status, why = 'refuted', 'panics although every argument can be in range: %r' % (vs,)
            else:
                status, why = 'unproven', o.kind
        if status == 'proved' and acc != want:
            status, why = 'refuted', 'accepted arguments %r, expected %r' % (acc, want)
        chk.ob(key, 'constructor outcome summary', status, subject=fn_subject(F, fk),
               expected='message of the arguments for channel 0..15, MSB controller 0..31, value 0..16383; panic otherwise', found=sorted(set(o.kind for o in outs)), why=why)
    guarded(chk, key, 'constructor outcome summary', ev)


def run(tier, cmd):
    chk = Check(PID, tier, 'other',
                'outcome summary of new (panic set), accessor terms, encoder output for an abstract factory by bit provenance, and '
                'composition of the encoder output with the extracted scanner transition function from every reachable typestate',
                cmd, trusted_base=TRUSTED, assumptions=['newtype fields in range (C04)', 'scanner typestates are those of the C08 fixpoint'],
                explanation='Decides: creation exactly for MSB controller 0..31; accessors; LSB = MSB + 32; encoding = CC n with high 7 bits then '
                            'CC n+32 with low 7 bits on the same channel (any factory inheriting control_change, C06); and, from every reachable '
                            'per-channel scanner state, that the two encoded messages yield None then exactly the original message '
                            '(build14(high7 v, low7 v) = v by bit provenance; the MSB row overwrites whatever was there). Channel routing of the '
                            'outer scanner is C15.')
    Fs = load_configs(chk, ['K1', 'K2'], required=('K1',))
    for cfg, F in sorted(Fs.items()):
        roles = A.msg_roles(F)
        computed = [k[1] for k, v in roles.items() if k[0] == CC14 and v is None]
        miss = [n for n in view.ACCESSORS[CC14] if CC14 + '::' + n not in F.fns]
        chk.ob('%s/accessors/%s' % (PID, cfg), 'accessor', 'proved' if not miss else 'refuted',
               expected='channel / msb_controller_number / value exist; what they return is decided by the new() clause',
               found=('missing: %s' % miss) if miss else ('stored fields returned as they are' if not computed else 'computed from the representation: %s' % sorted(computed)),
               nontrivial=False)
        if miss:
            continue
        new_clause(chk, F, roles)
        encoder_clause(chk, F, roles)
        shorthand_clause(chk, F, roles)
        guarded(chk, '%s/inversion/%s' % (PID, cfg), 'encoder/scanner composition', lambda F=F: inversion_clause(chk, F, roles, range(16) if tier == 'thorough' else (0,)))
        guarded(chk, '%s/invariant/%s' % (PID, cfg), 'struct invariant at construction site',
                lambda F=F: c09.invariant_clause(chk, F, CC14, 'ControlChange14BitMessage'))
    return chk.finish()
