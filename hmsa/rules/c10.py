"""C10 — the (N)RPN scanner inverts the encoder for the sequences it documents.

Composition of the encoder oracle table (C09 proves the encoder produces exactly these messages)
with the extracted transition function of the per-channel scanner, from *every reachable typestate*
(C11 fixpoint): nothing is reported before the last Control Change, and exactly the original
message on it.  Running forms: the unit (data byte | increment | decrement | LSB,MSB pair) leaves
the scanner in the same typestate it started from (canonical key equality), so any repetition count
follows by induction; two repetitions are composed explicitly.
"""
from .. import terms as T
from ..terms import VS, C, vs_of
from ..report import Check, fn_subject
from .. import harness as H, automata as A, seq
from .common import load_configs, guarded, TRUSTED
from . import scanners, c09

PID = 'C10'
CH, NUM = T.T('m.channel', 'u8'), T.T('m.number', 'u16')


def val_tok(i):
    return T.T('m.value%d' % i, 'u16')


def cc(cn, value, cons):
    return ('feed', T.mk_op('BitOr', C(0xB0), CH, None, cons), C(cn), value)


def number_msgs(reg, cons):
    return [cc(101 if reg else 99, H.t_high7(NUM, cons), cons), cc(100 if reg else 98, H.t_low7(NUM, cons), cons)]


def unit_msgs(kind, v, cons):
    if kind == '7bit':
        return [cc(6, v, cons)]
    if kind == 'increment':
        return [cc(96, v, cons)]
    if kind == 'decrement':
        return [cc(97, v, cons)]
    if kind == '14bit':
        return [cc(38, H.t_low7(v, cons), cons), cc(6, H.t_high7(v, cons), cons)]
    raise KeyError(kind)


def expected_msg(kind, v, reg):
    dt = {'7bit': 'DataEntry', '14bit': 'DataEntry', 'increment': 'DataIncrement', 'decrement': 'DataDecrement'}[kind]
    return {'channel': CH, 'number': NUM, 'value': v, 'is_registered': C(reg), 'is_14_bit': C(int(kind == '14bit')), 'data_type': dt}


def check_paths(F, paths, unit_lens, kind, reg, values, n_prefix):
    """outputs must be empty except at the last message of each unit, where the original is reported"""
    status, why = 'proved', ''
    if not paths:
        return 'unproven', 'no path'
    for p in paths:
        if p.dead:
            return ('refuted' if 'panic' in p.dead else 'unproven'), p.dead
        idx = n_prefix
        for k in range(n_prefix):
            if p.outputs[k]:
                return 'refuted', 'number byte %d reports %r' % (k, p.outputs[k])
        for u, ulen in enumerate(unit_lens):
            for j in range(ulen):
                outs = p.outputs[idx + j]
                last = j == ulen - 1
                if not last and outs:
                    return 'refuted', 'message %d of the unit reports early: %r' % (j, outs)
                if last:
                    if len(outs) != 1:
                        return 'refuted', 'last message of unit %d reports %d messages' % (u, len(outs))
                    ok, txt = A.msg_equal(F, outs[0], expected_msg(kind, values[u], reg), p.cons)
                    if not ok:
                        return 'refuted', 'unit %d: reported message is not the original: %s' % (u, txt)
            idx += ulen
    return status, why


def inversion(chk, F, which, rule_prefix='inversion', kinds=('7bit', 'increment', 'decrement', '14bit'), channels=(0,)):
    model, spec, P0, allp = scanners.product(F, which)
    for k in channels:
        _inversion_on_channel(chk, F, which, rule_prefix, kinds, model, allp[k], k)
    return P0


def _inversion_on_channel(chk, F, which, rule_prefix, kinds, model, P, k):
    cfg = F.cfg
    for key in P.order:
        cs, ss, cons0, label = P.pairs[key]
        for kind in kinds:
            for reg in (0, 1):
                okey = '%s/%s/%s/%s.%s/from-%s%s' % (chk.pid, rule_prefix, cfg, kind, 'registered' if reg else 'nonregistered', A.spec_shape(ss), '/channel-%d' % k if k else '')

                def ev(cs=cs, cons0=cons0, kind=kind, reg=reg, okey=okey, k=k):
                    cons = dict(cons0)
                    vmax = 16383 if kind == '14bit' else 127
                    v1, v2 = val_tok(1), val_tok(2)
                    cons.update({CH: VS.one(k), NUM: VS(0, 16383), v1: VS(0, vmax), v2: VS(0, vmax)})
                    u1, u2 = unit_msgs(kind, v1, cons), unit_msgs(kind, v2, cons)
                    msgs = number_msgs(reg, cons) + u1 + u2
                    paths = seq.run_sequence(F, model, P.roles, cs, cons, msgs, k=k)
                    status, why = check_paths(F, paths, [len(u1), len(u2)], kind, reg, [v1, v2], 2)
                    # induction step for longer running forms: the unit maps the post-selection typestate to itself
                    if status == 'proved':
                        pa = seq.run_sequence(F, model, P.roles, cs, cons, number_msgs(reg, cons) + u1, k=k)
                        pb = seq.run_sequence(F, model, P.roles, cs, cons, msgs, k=k)
                        ka = set(A.canonical_pair(p.state, (), p.cons)[3][0] for p in pa if not p.dead)
                        kb = set(A.canonical_pair(p.state, (), p.cons)[3][0] for p in pb if not p.dead)
                        if ka != kb:
                            status, why = 'unproven', 'the unit does not return the scanner to the same typestate (running forms not closed)'
                    chk.ob(okey, 'encoder/scanner composition', status, subject=fn_subject(F, model.sub_key('feed')),
                           expected='nothing until the last Control Change of each unit, then exactly the original message',
                           found='%d paths' % len(paths), why=why)
                guarded(chk, okey, 'encoder/scanner composition', ev)
    return P


def run(tier, cmd):
    chk = Check(PID, tier, 'other',
                'composition of the (N)RPN encoder table with the extracted per-channel transition function from every reachable '
                'typestate; original message recovered by bit provenance (build14(high7, low7) = identity); running forms by typestate '
                'closure of the unit plus two explicit repetitions',
                cmd, trusted_base=TRUSTED,
                assumptions=['the encoder emits the messages of the C09 table (proved there)', 'scanner typestates are those of the C11 fixpoint'],
                explanation='Decides: for 7-bit, increment, decrement and LSB-first 14-bit messages (registered and non-registered), from every '
                            'reachable scanner state, the number bytes report nothing and clear a stale controller-38 value, and the last message '
                            'reports exactly the original (channel, number, value, flags, data type); repeated units after one number selection '
                            'each report their own message. Channel routing of the outer scanner is C15.')
    Fs = load_configs(chk, ['K1'] + (['K2'] if tier == 'thorough' else []), required=('K1',))
    for cfg, F in sorted(Fs.items()):
        P = guarded(chk, '%s/inversion/%s' % (PID, cfg), 'encoder/scanner composition', lambda F=F: inversion(chk, F, 'pn', channels=range(16) if (tier == 'thorough' and F.cfg == 'K1') else (0,)))
        if P is not None:
            chk.floor('start_states_%s' % cfg, 14, len(P.pairs))
    return chk.finish()
