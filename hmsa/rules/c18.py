"""C18 — real-time safety: no heap allocation and no panic on valid input.

Allocation (effect analysis, proof):
  * without the std feature the crate is #![no_std] and links neither `alloc` nor `std`;
  * with std, over all non-test bodies: no local / field type from `alloc`, every callee lives in the
    crate itself, in `core` (which has no allocator) or is on the short allow-list (Instant::now,
    Instant::elapsed and trait impls on Instant/Duration, num_enum's generated conversion);
  * message and scanner types are Copy.
Panics: every panic-capable terminator (calls into core::panicking, expect/unwrap, Assert
terminators) of both configurations is enumerated; each must be inside a documented-panic API
(checked constructors, test_util shorthands, ControlChange14BitMessage::new, generic factory
constructors) or *dead*: the whole-crate abstract interpretation under the validity assumptions
reaches no panic outcome there; sites inside per-channel scanner elements are discharged against
the reachable typestates of the extracted automata (no panic row).
"""
from ..mirpp import ty_str
from .. import audit, scan, automata as A
from ..report import Check, site_subject, fn_subject
from ..spec import midi
from .common import load_configs, guarded, TRUSTED
from . import scanners

PID = 'C18'
# std / core::time callees known neither to allocate nor to panic (arithmetic on Instant / Duration with `+`, `-`, `*`
# panics on overflow and is therefore *not* listed; the saturating / checked forms are)
STD_ALLOW = ('std::time::Instant::now', 'std::time::Instant::elapsed', 'std::time::Instant::duration_since',
             'std::time::Instant::saturating_duration_since', 'std::time::Instant::checked_duration_since',
             'std::time::Instant::checked_add', 'std::time::Instant::checked_sub')
STD_ALLOW_TRAITS = ('core::cmp::PartialEq', 'core::cmp::Eq', 'core::cmp::PartialOrd', 'core::cmp::Ord', 'core::clone::Clone',
                    'core::hash::Hash', 'core::fmt::Debug', 'core::default::Default')
# core callees that may panic although they are not calls into core::panicking at the call site
CORE_MAY_PANIC = ('core::time::Duration::from_secs_f32', 'core::time::Duration::from_secs_f64', 'core::time::Duration::mul_f32',
                  'core::time::Duration::mul_f64', 'core::time::Duration::div_f32', 'core::time::Duration::div_f64',
                  'core::slice::<impl [T]>::copy_from_slice', 'core::slice::<impl [T]>::clone_from_slice', 'core::slice::<impl [T]>::split_at',
                  'core::slice::<impl [T]>::split_at_mut', 'core::slice::<impl [T]>::swap', 'core::slice::<impl [T]>::chunks',
                  'core::slice::<impl [T]>::chunks_exact', 'core::slice::<impl [T]>::windows', 'core::str::<impl str>::split_at',
                  'core::cmp::Ord::clamp', 'core::cell::RefCell::<T>::borrow', 'core::cell::RefCell::<T>::borrow_mut',
                  'core::iter::traits::iterator::Iterator::step_by', 'core::char::from_digit', 'core::unreachable')
# of these the interpreter's models decide the panic condition from the (concrete) lengths and indices at each call site:
# a site that can panic yields a panic outcome, one that cannot be decided an unmodelled-callee obligation
DECIDED_BY_MODEL = ('core::slice::<impl [T]>::copy_from_slice', 'core::slice::<impl [T]>::clone_from_slice', 'core::slice::<impl [T]>::split_at',
                    'core::slice::<impl [T]>::split_at_mut', 'core::slice::<impl [T]>::swap', 'core::iter::traits::iterator::Iterator::step_by')
PANICKING_TIME_TRAITS = ('core::ops::arith::Add', 'core::ops::arith::Sub', 'core::ops::arith::Mul', 'core::ops::arith::Div',
                         'core::ops::arith::AddAssign', 'core::ops::arith::SubAssign', 'core::ops::arith::MulAssign', 'core::ops::arith::DivAssign')
# trait methods that cannot panic for the receivers met here (comparisons, clone, hash, fmt, default) when left unmodelled
SAFE_UNMODELLED_TRAITS = ('core::cmp::PartialEq', 'core::cmp::Eq', 'core::cmp::PartialOrd', 'core::cmp::Ord', 'core::clone::Clone',
                          'core::hash::Hash', 'core::hash::Hasher', 'core::default::Default')
DEP_ALLOW = {'num_enum': ('num_enum::TryFromPrimitive::try_from_primitive',)}
COPY_TYPES = ['RawShortMessage', 'StructuredShortMessage', 'ControlChange14BitMessage', 'ParameterNumberMessage',
              'ControlChange14BitMessageScanner', 'ParameterNumberMessageScanner', 'PollingParameterNumberMessageScanner',
              'U4', 'U7', 'U14', 'Channel', 'KeyNumber', 'ControllerNumber', 'TimeCodeQuarterFrame', 'ShortMessageType']
# anti-vacuity floors. The panic-site floor is anchored, not a raw count (removing a bounds check or an expect() is an
# improvement, not a missing anchor): each of the six newtype constructors documented to panic must show at least one
# recognised panic-capable site; the call floor is far below today's 888 for the same reason.
FLOORS = {'documented_constructors_with_panic_site_K1': 6, 'call_terminators_K1': 500}


def documented_panic_fns(F):
    d = set()
    for p in midi.NEWTYPE_PATH.values():
        d.add(p + '::new')
    for k, f in F.fns.items():
        if k.startswith('test_util::') and f['kind'] == 'Fn':
            d.add(k)
    d.add(A.CC14 + '::new')
    for n in midi.GENERIC_CONSTRUCTORS:
        d.add('short_message_factory::ShortMessageFactory::' + n)
    return d


def types_in(ty, acc):
    if ty['k'] == 'adt':
        acc.add((ty['path'], ty.get('krate')))
        for a in ty['args']:
            if a['k'] not in ('lifetime', 'constarg'):
                types_in(a, acc)
    elif ty['k'] == 'tuple':
        for t in ty['tys']:
            types_in(t, acc)
    elif ty['k'] in ('ref', 'ptr', 'array', 'slice'):
        types_in(ty['ty'], acc)


def allocation(chk, Fs):
    F2 = Fs.get('K2')
    if F2 is not None:
        ok = 'std' not in F2.crates and 'alloc' not in F2.crates
        chk.ob('%s/alloc/K2/no-allocator-linked' % PID, 'effect: no allocator available', 'proved' if ok else 'refuted',
               expected='--no-default-features build links neither std nor alloc', found=sorted(F2.crates), nontrivial=False)
    for cfg, F in sorted(Fs.items()):
        bad_types, n_types = [], 0
        for k, f, body, pi in scan.bodies(F):
            acc = set()
            for l in body['locals']:
                types_in(l, acc)
            n_types += len(acc)
            for p, kr in acc:
                if kr == 'alloc' or p.startswith('alloc::'):
                    bad_types.append((k, p))
        for a in F.adts.values():
            for v in a['variants']:
                for fd in v['fields']:
                    acc = set()
                    types_in(fd['ty'], acc)
                    for p, kr in acc:
                        if kr == 'alloc' or p.startswith('alloc::'):
                            bad_types.append((a['path'], p))
        chk.ob('%s/alloc/%s/no-alloc-types' % (PID, cfg), 'effect: no heap type', 'proved' if not bad_types else 'refuted',
               expected='no local, argument or field of a type defined in `alloc`', found=bad_types[:5] or '%d type occurrences scanned' % n_types,
               why='heap-owning type in non-test code' if bad_types else '')
        calls = scan.call_sites(F)
        if cfg == 'K1':
            chk.floor('call_terminators_K1', FLOORS['call_terminators_K1'], len(calls))
        by_crate = {}
        offenders = []
        # calls through function pointers: the possible targets are the functions whose address is taken somewhere in the
        # crate (constant operands of function type that are not the callee of a direct call); no public API takes or
        # returns a function pointer or a closure, so none can come from outside
        reified, unknown_fn_value = set(), False
        for k0, f0, body, pi in scan.bodies(F):
            for blk in body['blocks']:
                ops = []
                for s0 in blk['stmts']:
                    if s0['k'] == 'assign':
                        rv = s0['rv']
                        ops += [rv.get('x'), rv.get('op')] + list(rv.get('ops', []) or [])
                if blk['term']['k'] == 'call':
                    ops += list(blk['term']['args'])
                for o in ops:
                    if isinstance(o, dict) and o.get('k') == 'const' and o.get('fn'):
                        reified.add((o['fn'].get('resolved_krate') or o['fn'].get('krate'), o['fn'].get('resolved') or o['fn'].get('path')))
        fnptr_in_api = any(('fn(' in ty_str(t0) or 'dyn ' in ty_str(t0)) for k0, f0 in F.fns.items() if f0.get('exported') and f0['kind'] in ('Fn', 'AssocFn')
                           for t0 in list(f0.get('inputs', [])) + [f0.get('output') or {'k': 'tuple', 'tys': []}])
        for site, c, t in calls:
            if c is None:
                bad = sorted(p for kr, p in reified if kr not in ('helgoboss_midi', 'core'))
                if bad or fnptr_in_api:
                    offenders.append((site, 'indirect call (possible targets outside the crate / core: %s)' % (bad[:2] or 'function pointers cross the public API')))
                else:
                    by_crate['helgoboss_midi'] = by_crate.get('helgoboss_midi', 0) + 1
                continue
            if t['t'] is None and (c['path'].startswith('std::panicking::') or c['path'].startswith('std::rt::') or c['path'].startswith('core::panicking::')):
                continue            # a panic entry point: panic paths are excluded from the allocation clause and enumerated as panic sites
            kr = c.get('resolved_krate') or c['krate']
            path = c.get('resolved') or c['path']
            by_crate[kr] = by_crate.get(kr, 0) + 1
            if c['local'] or c.get('resolved_local') or kr in ('helgoboss_midi', 'core'):
                continue
            if kr == 'std':
                tr = c.get('trait')
                sub_instants = tr == 'core::ops::arith::Sub' and len([a for a in c['args'] if a.get('path') == 'std::time::Instant']) == 2
                if path in STD_ALLOW or c['path'] in STD_ALLOW or (tr in STD_ALLOW_TRAITS and 'std::time::Instant' in path) or sub_instants:
                    continue
            if kr in DEP_ALLOW and (path in DEP_ALLOW[kr] or c['path'] in DEP_ALLOW[kr]):
                continue
            if c['krate'] == 'core' and c.get('resolved') is None:
                continue            # unresolved generic call of a core trait method: resolved at the instantiation, audited there
            offenders.append((site, '%s (crate %s)' % (path, kr)))
        for site, c, t in calls:
            if c is None:
                continue
            path = c.get('resolved') or c['path']
            tr = c.get('trait')
            timey = any(a.get('path') in ('std::time::Instant', 'core::time::Duration') for a in c['args'][:1])
            sub_instants = tr == 'core::ops::arith::Sub' and len([a for a in c['args'] if a.get('path') == 'std::time::Instant']) == 2
            if (tr in PANICKING_TIME_TRAITS and timey and not sub_instants) or ((c['path'] in CORE_MAY_PANIC or path in CORE_MAY_PANIC)
                                                                                and c['path'] not in DECIDED_BY_MODEL and path not in DECIDED_BY_MODEL):
                if out_of_scope(F, site[0]):
                    continue
                chk.ob('%s/panic/%s/may-panic-callee/%s' % (PID, cfg, site[0]), 'dead panic site', 'refuted', subject=site_subject(F, site),
                       expected='no call of a library function that panics for some arguments (overflowing time arithmetic etc.)',
                       found=c['path_args'], why='%s can panic (e.g. on overflow) and its arguments are not shown to be safe' % c['path_args'])
        chk.extra.setdefault('callee_crates', {})[cfg] = by_crate
        groups = {}
        for site, txt in offenders:
            groups.setdefault(site[0], []).append((site, txt))
        for fnk, lst in sorted(groups.items()):
            chk.ob('%s/alloc/%s/callee/%s' % (PID, cfg, fnk), 'effect: callee cannot allocate', 'refuted', subject=site_subject(F, lst[0][0]),
                   expected='callees only in the crate, in core, or on the allow-list', found=[x[1] for x in lst][:4],
                   why='call into a crate that may allocate')
        chk.ob('%s/alloc/%s/callee-crates' % (PID, cfg), 'effect: callee cannot allocate', 'proved' if not offenders else 'refuted',
               expected='all %d call terminators stay in {crate, core} or on the allow-list' % len(calls), found=by_crate)
        for name in COPY_TYPES:
            hits = [p for p in F.adts if p.split('::')[-1] == name and F.adts[p]['vis'] == 'Public']
            if not hits:
                if name == 'PollingParameterNumberMessageScanner' and 'std' not in F.features:
                    continue
                chk.ob('%s/alloc/%s/copy/%s' % (PID, cfg, name), 'effect: no heap type', 'unproven', why='type not found', nontrivial=False)
                continue
            chk.ob('%s/alloc/%s/copy/%s' % (PID, cfg, name), 'effect: no heap type', 'proved' if F.adts[hits[0]]['copy'] else 'refuted',
                   expected='Copy (owns no heap memory)', found=F.adts[hits[0]]['copy'], nontrivial=False)


def panic_sites(F):
    """statically enumerate panic-capable terminators: [(site, kind, text)]"""
    out = []
    for k, f in F.fns.items():
        for bi, blk in enumerate(f['body']['blocks']):
            if blk['cleanup']:
                continue
            t = blk['term']
            if t['k'] == 'assert':
                out.append(((k, bi, 't'), 'assert', t['msg']))
            elif t['k'] == 'call' and t['f'].get('fn'):
                c = t['f']['fn']
                p = c['path']
                if p.startswith('core::panicking::') or p.startswith('std::rt::begin_panic') or p.startswith('std::panicking::') \
                        or (t['t'] is None and not c.get('local') and not c.get('trait')):
                    out.append(((k, bi, 't'), 'panic-call', p.split('::')[-1]))
                elif p in ('core::option::Option::<T>::expect', 'core::option::Option::<T>::unwrap',
                           'core::result::Result::<T, E>::expect', 'core::result::Result::<T, E>::unwrap',
                           'core::result::Result::<T, E>::expect_err', 'core::result::Result::<T, E>::unwrap_err'):
                    out.append(((k, bi, 't'), 'unwrap', c['name']))
    return out


def _reaches_site(F, fn, with_site, depth=4):
    """does `fn`, or a crate function it calls (directly, a few levels deep), contain a recognised panic-capable site"""
    todo, done = [(fn, 0)], set()
    while todo:
        k, d = todo.pop()
        if k in done or k not in F.fns:
            continue
        done.add(k)
        if k in with_site:
            return True
        # closures defined in the function (e.g. `unwrap_or_else(|| panic!(..))`) are part of it
        todo.extend((c, d) for c in F.fns if c.startswith(k + '::{closure'))
        if d < depth:
            for blk in F.fns[k]['body']['blocks']:
                t = blk['term']
                if t['k'] == 'call' and t['f'].get('fn') and t['f']['fn'].get('local'):
                    todo.append((t['f']['fn']['path'], d + 1))
    return False


def panics(chk, F, tier):
    cfg = F.cfg
    Aud = audit.get(F)
    doc = documented_panic_fns(F)
    sites = panic_sites(F)
    if cfg == 'K1':
        ctors = set(p + '::new' for p in midi.NEWTYPE_PATH.values())
        with_site = set(s[0][0] for s in sites)
        seen = set(c for c in ctors if _reaches_site(F, c, with_site))
        chk.floor('documented_constructors_with_panic_site_K1', FLOORS['documented_constructors_with_panic_site_K1'], len(seen))
    chk.extra.setdefault('panic_capable_sites', {})[cfg] = len(sites)
    # which scanner element functions exist (their panic sites are discharged on reachable typestates)
    elem_fns = {}
    prod_panics = {}
    for which, (cls, name) in scanners.SCANNERS.items():
        if which == 'polling' and 'std' not in F.features:
            continue
        try:
            model, spec, P, allp = scanners.product(F, which)
        except Exception as e:       # noqa
            chk.ob('%s/panic/%s/automaton/%s' % (PID, cfg, which), 'dead panic site', 'unproven', why='automaton extraction failed: %r' % (e,))
            continue
        for m in ('feed', 'poll', 'reset'):
            for fk in (model.sub_key(m), model.outer_key(m)):
                if fk:
                    elem_fns[fk] = which
        prod_panics[which] = [r for k in sorted(allp) for r in allp[k].rows if r.outcome_kind in ('panic', 'lost')]
    groups = {}
    for site, kind, text in sites:
        groups.setdefault(site[0], []).append((site, kind, text))
    for fnk, lst in sorted(groups.items()):
        f = F.fns[fnk]
        if out_of_scope(F, fnk):
            continue
        status, why, found = 'proved', '', []
        for site, kind, text in lst:
            at = site_subject(F, site).get('at')
            obs = Aud.panics.get(site, [])
            reached = (site[0], site[1]) in Aud.reached
            if fnk in doc:
                found.append('%s %s at %s: documented panic of %s' % (kind, text, at, fnk.split('::')[-1]))
                continue
            live = []
            for (w, entry, cons, stack) in obs:
                if entry in doc or any(s in doc for s in stack):
                    continue            # reached only through a documented-panic API (its own contract)
                if entry in elem_fns:
                    which = elem_fns[entry]
                    if not prod_panics.get(which):
                        continue        # unconstrained element state; dead on every reachable typestate (automaton has no panic row)
                    live.append('%s: reachable typestate panics (%s)' % (entry, prod_panics[which][0].why))
                    continue
                live.append('entry %s with %s' % (entry, cons))
            if live:
                status = 'refuted'
                why = '%s %s at %s can be reached on valid input: %s' % (kind, text, at, live[0][:300])
            else:
                found.append('%s %s at %s: %s' % (kind, text, at, 'dead under the validity assumptions' if reached else 'block unreachable'))
        chk.ob('%s/panic/%s/%s' % (PID, cfg, fnk), 'dead panic site', status, subject=fn_subject(F, fnk),
               expected='documented, or unreachable for valid input', found=found[:4], why=why)
    for (entry, site, why) in Aud.lost:
        if out_of_scope(F, entry):
            continue
        chk.ob('%s/panic/%s/analysis-complete/%s' % (PID, cfg, entry), 'dead panic site', 'unproven',
               subject=site_subject(F, site) if site else fn_subject(F, entry), why='abstract interpretation gave up on a path: %s' % why)
    # callees the interpreter has no model for: unless they are of a kind that cannot panic, fail closed
    for pa, (path, tr, kr, resolved, caller) in sorted(getattr(Aud, 'unmodelled_info', {}).items()):
        if out_of_scope(F, caller) or path.startswith('core::fmt::') or path.startswith('core::hash::'):
            continue
        if tr in SAFE_UNMODELLED_TRAITS:
            continue
        chk.ob('%s/panic/%s/unmodelled-callee/%s' % (PID, cfg, pa), 'dead panic site', 'unproven', subject=fn_subject(F, caller),
               expected='every callee is either modelled or of a kind that cannot panic', found=pa,
               why='no model for %s (crate %s): cannot show that it does not panic' % (pa, kr))
    # panic outcomes at sites that were not statically enumerated would be an enumeration bug: fail closed
    enumerated = {s for s, k, t in sites}
    for site in Aud.panics:
        if site not in enumerated and not out_of_scope(F, site[0]):
            chk.ob('%s/panic/%s/unenumerated/%s' % (PID, cfg, site[0]), 'dead panic site', 'unproven', subject=site_subject(F, site),
                   why='panic outcome at a terminator the static enumeration did not list')


def out_of_scope(F, key):
    """bodies the panic clause does not speak about: serde-generated code (C19) and `Debug` formatting (the property
    lists "parsing and formatting of the integer types", whose Debug impls are derived; Debug output of scanners and
    messages is a diagnostic aid, not an operation on valid input the property enumerates)"""
    return scan.is_serde_generated(F, key) or ' as core::fmt::Debug>::fmt' in key


def run(tier, cmd):
    chk = Check(PID, tier, 'other',
                'effect analysis over all MIR bodies of the std and no_std configurations (types, callee crates, Copy-ness) and '
                'enumeration of every panic-capable terminator, each discharged as documented or dead by the whole-crate abstract '
                'interpretation / the reachable typestates of the scanner automata',
                cmd, trusted_base=TRUSTED + ['core cannot allocate (it has no allocator)', 'Instant::now / Instant::elapsed neither allocate nor panic',
                                              'the std panic machinery may allocate while reporting a (documented) panic: panic paths are excluded'],
                assumptions=['validity of inputs: newtype invariants, valid status byte, struct invariants of the message types (each proved at its construction sites)'],
                explanation='Allocation part (proof): the no_std build has no allocator at all; in the std build no heap type occurs and every one '
                            'of the call terminators stays in the crate, in core, or on a four-entry allow-list. Panic part: every panic-capable '
                            'terminator of both configurations is either inside an API documented to panic (whose exact panic condition is '
                            'decided by C04/C06/C07) or shown dead under the validity assumptions; scanner-internal sites are dead on every '
                            'reachable typestate. Not decided: behaviour of core/std internals (trusted), serde deserializers (C19).')
    Fs = load_configs(chk, ['K1', 'K2'], required=('K1', 'K2'))
    guarded(chk, '%s/alloc' % PID, 'effect: callee cannot allocate', lambda: allocation(chk, Fs))
    for cfg, F in sorted(Fs.items()):
        guarded(chk, '%s/panic/%s' % (PID, cfg), 'dead panic site', lambda F=F: panics(chk, F, tier))
    return chk.finish()
