"""C04 — restricted integer types never hold an out-of-range value (proof by closed-writer audit).

R4.1 who-may-write      field privacy, no &mut escape, no transmute / union / raw pointer / static mut
R4.2 construction sites every MIR aggregate producing a newtype (all configurations) has operands
                        whose abstract value set lies in [0, max]; unsafe constructors move the
                        obligation to their call sites; struct invariants of the message types
R4.3 impl inventory     From<X> for N only when range(X) is inside range(N)
R4.4 exactness          new / TryFrom / FromStr reject exactly the out-of-range inputs
R4.5 configuration      no cfg predicate that can never hold (rustc unexpected_cfgs)
"""
from .. import audit, scan, terms as T, invariants
from ..terms import VS, vs_of
from ..interp import Sc, Ag, Un, NEWTYPE_MAX
from ..entry import run_fn
from ..report import Check, site_subject, fn_subject
from ..spec import midi
from .common import load_configs, guarded, short_ty, TRUSTED

PID = 'C04'
NT = midi.NEWTYPE_PATH            # short name -> path
FLOORS = {'newtypes': 6, 'newtype_ctor_sites_K1': 110, 'from_impls_K1': 72, 'tryfrom_impls_K1': 60,
          'unsafe_ctor_fns_K1': 8, 'fromstr_impls_K1': 6}


def type_range(ty):
    if ty['k'] == 'int':
        return T.irange(ty['name'])
    if ty['k'] == 'bool':
        return (0, 1)
    if ty['k'] == 'adt' and ty['path'] in midi.PATH_NEWTYPE:
        return (0, midi.NEWTYPE_MAX[midi.PATH_NEWTYPE[ty['path']]])
    return None


def tyname(ty):
    if ty['k'] == 'adt':
        return short_ty(ty['path'])
    from ..mirpp import ty_str
    return ty_str(ty)


def conversion_impls(F):
    """[(trait short, source type, target type, impl)] for From/TryFrom impls that involve a newtype"""
    out = []
    for im in F.impls:
        tr = im.get('trait')
        if tr not in ('core::convert::From', 'core::convert::TryFrom'):
            continue
        tgt = im['self']
        src = [a for a in im['trait_args'][1:] if a['k'] != 'lifetime']
        if not src:
            continue
        src = src[0]
        inv = [t for t in (src, tgt) if t['k'] == 'adt' and t['path'] in midi.PATH_NEWTYPE]
        if not inv:
            continue
        out.append((tr.split('::')[-1], src, tgt, im))
    return out


def r41_who_may_write(chk, F):
    cfg = F.cfg
    n = 0
    for short, path in NT.items():
        a = F.adts.get(path)
        key = '%s/field-private/%s/%s' % (PID, cfg, short)
        if a is None:
            chk.ob(key, 'R4.1 who-may-write', 'unproven', why='type %s not found in this configuration' % path, nontrivial=False)
            continue
        n += 1
        fs = a['variants'][0]['fields']
        ok = a['kind'] == 'struct' and len(fs) == 1 and fs[0]['vis'] != 'Public' and fs[0]['ty']['k'] == 'int' \
            and fs[0]['ty']['name'] == midi.NEWTYPE_REPR[short]
        chk.ob(key, 'R4.1 who-may-write', 'proved' if ok else 'refuted',
               subject={'type': path, 'at': a['span']['callsite'], 'config': cfg},
               expected='single non-pub field of type %s' % midi.NEWTYPE_REPR[short],
               found='%s fields=%s' % (a['kind'], [(f['name'], f['vis'].split('(')[0], tyname(f['ty'])) for f in fs]), nontrivial=False)
    chk.floors.setdefault('newtypes', [FLOORS['newtypes'], n])
    tracked = set(NT.values()) | set(invariants.STRUCTS)
    # traits that would hand out a mutable reference to the representation
    bad_traits = ('core::ops::deref::DerefMut', 'core::convert::AsMut', 'core::borrow::BorrowMut', 'core::ops::index::IndexMut')
    hits = [im for im in F.impls if im.get('trait') in bad_traits and im['self']['k'] == 'adt' and im['self']['path'] in tracked]
    chk.ob('%s/no-mut-access-trait/%s' % (PID, cfg), 'R4.1 who-may-write', 'refuted' if hits else 'proved',
           expected='no DerefMut/AsMut/BorrowMut/IndexMut impl for an invariant-carrying type',
           found=[(im['trait'], im['self']['path'], im['span']['at']) for im in hits], nontrivial=False)
    # functions returning &mut to a primitive / to a tracked type's representation
    leaks = []
    for k, f in F.fns.items():
        out = f.get('output')
        if out and out['k'] == 'ref' and out['mut']:
            sel = f.get('impl_self')
            if sel and sel['k'] == 'adt' and sel['path'] in tracked:
                leaks.append((k, f['span']['at']))
    chk.ob('%s/no-mut-ref-out/%s' % (PID, cfg), 'R4.1 who-may-write', 'refuted' if leaks else 'proved',
           expected='no method of an invariant-carrying type returns a mutable reference', found=leaks, nontrivial=False)
    uc = scan.unsafe_constructs(F)
    chk.ob('%s/no-unsafe-memory/%s' % (PID, cfg), 'R4.1 who-may-write', 'refuted' if uc else 'proved',
           expected='no transmute / raw pointer / union / static mut in non-test code',
           found=[(kind, site_subject(F, s).get('at') if s else None, txt) for kind, s, txt in uc][:10], nontrivial=False)
    # direct field writes into a tracked type outside of an aggregate
    fw = [(site, p, i) for site, p, i, last in scan.parent_types_of_field_writes(F)
          if p['k'] == 'adt' and p['path'] in tracked]
    chk.ob('%s/no-field-write/%s' % (PID, cfg), 'R4.1 who-may-write', 'refuted' if fw else 'proved',
           expected='no assignment through a field of an invariant-carrying value (values are built only by aggregates)',
           found=[(site_subject(F, s).get('at'), s[0], short_ty(p['path'])) for s, p, i in fw][:10], nontrivial=False)


def r42_sites(chk, F, A):
    cfg = F.cfg
    tracked_nt = set(NT.values())
    static_sites = scan.aggregate_sites(F, tracked_nt | set(invariants.STRUCTS))
    callers = scan.callers_of(F)
    by_group = {}
    for site, path, variant in static_sites:
        by_group.setdefault((site[0], path), []).append(site)
    n_nt_sites = sum(1 for s, p, v in static_sites if p in tracked_nt)
    if cfg == 'K1':
        chk.floor('newtype_ctor_sites_K1', FLOORS['newtype_ctor_sites_K1'], n_nt_sites)
    chk.extra.setdefault('ctor_sites', {})[cfg] = len(static_sites)
    reach = {'v': None}

    def on_reachable_states(site, stack):
        """a bad observation made from an *unconstrained* scanner state (the audit enters scanner methods with an arbitrary
        `self`): does the site hold on every visit from a reachable typestate of the scanner automata (all 16 channels)?
        Only for entries that take the scanner state as their receiver, only when the explorations are complete, and only
        for sites the explorations actually visited."""
        from . import scanners
        if reach['v'] is None:
            try:
                reach['v'] = scanners.reachable_site_verdicts(F)
            except Exception:      # noqa
                reach['v'] = ({}, False, set())
        verdicts, complete, types = reach['v']
        entry = F.fns.get(stack[0]) if stack else None
        if not complete or entry is None or not entry.get('inputs'):
            return None
        t0 = entry['inputs'][0]
        while t0.get('k') == 'ref':
            t0 = t0['ty']
        if t0.get('k') != 'adt' or t0.get('path') not in types:
            return None
        v = verdicts.get(site)
        if v is None or v[0] is not True:
            return None
        return 'holds on all %d visits from reachable scanner typestates (%s); the audit entered %s with an arbitrary receiver' % (v[2], v[1], stack[0].split('::')[-1])

    def does_not_escape(stack):
        """a value built *before* its range check (`valid(x).then_some(N(x))`, `Some(N(x)).filter(..)`): accepted when on
        every path of the entry that reached the site no invariant-violating value is returned, stored through a
        reference argument, or handed to a separately analysed callee (all paths analysed)"""
        e = A.escape.get(stack[0]) if stack else None
        if e is None or not e['complete'] or e['bad']:
            return None
        return 'built before its check: no out-of-range value leaves %s on any path' % stack[0].split('::')[-1]
    for (fnkey, path), sites in sorted(by_group.items()):
        f = F.fns[fnkey]
        if scan.is_serde_generated(F, fnkey):
            continue                      # deserialization sites belong to C19
        short = short_ty(path)
        key = '%s/ctor-site/%s/%s/%s' % (PID, cfg, fnkey, short)
        if f.get('unsafe'):
            chk.ob(key, 'R4.2 construction site', 'proved', subject=fn_subject(F, fnkey),
                   found='unsafe fn: obligation is checked at every in-crate call site', nontrivial=False)
            continue
        status, found, why = 'proved', [], ''
        for site in sites:
            obs = A.ctor.get(site)
            sub = site_subject(F, site)
            if not obs:
                dead = not callers.get(fnkey) and not audit.is_entry(f)
                if dead:
                    found.append('%s: function is never called (dead code)' % sub.get('at'))
                    continue
                status = 'unproven' if status == 'proved' else status
                why = 'construction site at %s was not reached by any analysed path' % sub.get('at')
                continue
            for (p, variant, fields, extra, stack) in obs:
                if path in tracked_nt:
                    mx = midi.NEWTYPE_MAX[short]
                    v = fields[0] if fields else None
                    if v is None or not v.subset(VS(0, mx)):
                        note = on_reachable_states(site, stack) or does_not_escape(stack)
                        if note is not None:
                            if len(found) < 4:
                                found.append('%s: %s' % (sub.get('at'), note))
                            continue
                    if v is None:
                        status = 'unproven' if status == 'proved' else status
                        why = 'operand at %s is not a scalar with a known value set (entry %s)' % (sub.get('at'), stack[0] if stack else '?')
                    elif not v.subset(VS(0, mx)):
                        status = 'refuted'
                        why = '%s(x) at %s with x in %r, outside 0..%d (reached from %s)' % (short, sub.get('at'), v, mx, stack[0] if stack else '?')
                    if len(found) < 4:
                        found.append('%s: x in %r' % (sub.get('at'), v))
                else:
                    if extra is None:
                        continue
                    ok, txt = extra
                    if not ok:
                        note = on_reachable_states(site, stack) or does_not_escape(stack)
                        if note is not None:
                            if len(found) < 4:
                                found.append('%s: %s' % (sub.get('at'), note))
                            continue
                    if ok is None:
                        status = 'unproven' if status == 'proved' else status
                        why = '%s at %s (entry %s)' % (txt, sub.get('at'), stack[0] if stack else '?')
                    elif not ok:
                        status = 'refuted'
                        why = '%s at %s (reached from %s)' % (txt, sub.get('at'), stack[0] if stack else '?')
                    if len(found) < 4:
                        found.append('%s: %s' % (sub.get('at'), txt))
        sub = site_subject(F, sites[0])
        chk.ob(key, 'R4.2 construction site', status, subject=sub,
               expected=('operand value set within 0..%d on every path' % midi.NEWTYPE_MAX[short]) if path in tracked_nt else 'struct invariant of %s holds' % short,
               found=found, why=why)
    # unsafe constructors: call sites
    n_unsafe = sum(1 for k, f in F.fns.items() if f.get('unsafe') and k.split('::')[-1] in ('new_unchecked', 'from_bytes_unchecked'))
    if cfg == 'K1':
        chk.floor('unsafe_ctor_fns_K1', FLOORS['unsafe_ctor_fns_K1'], n_unsafe)
    groups = {}
    for site, lst in A.unsafe_calls.items():
        for (callee, txt, ok, stack) in lst:
            groups.setdefault((site[0], callee), []).append((site, txt, ok, stack))
    for (caller, callee), lst in sorted(groups.items()):
        if scan.is_serde_generated(F, caller):
            continue
        status, why = 'proved', ''
        for site, txt, ok, stack in lst:
            if ok is None and status == 'proved':
                status, why = 'unproven', '%s at %s' % (txt, site_subject(F, site).get('at'))
            if ok is False:
                status, why = 'refuted', '%s at %s (reached from %s)' % (txt, site_subject(F, site).get('at'), stack[0] if stack else '?')
        chk.ob('%s/unsafe-ctor-call/%s/%s/%s' % (PID, cfg, caller, callee.split('::')[-1] if '<Self' not in callee else 'Self::from_bytes_unchecked'),
               'R4.2 unsafe constructor call site', status, subject=site_subject(F, lst[0][0]),
               expected='argument satisfies the safety contract of %s' % callee, found=[x[1] for x in lst[:3]], why=why)
    # statically present calls to unsafe constructors that no path reached
    for site, c, t in scan.call_sites(F):
        if c is None or not c.get('unsafe') or c['name'] not in ('new_unchecked', 'from_bytes_unchecked'):
            continue
        if site[2] != 't' or scan.is_serde_generated(F, site[0]):
            continue
        if site not in A.unsafe_calls:
            f = F.fns[site[0]]
            dead = not callers.get(site[0]) and not audit.is_entry(f)
            chk.ob('%s/unsafe-ctor-call-unreached/%s/%s' % (PID, cfg, site[0]), 'R4.2 unsafe constructor call site',
                   'proved' if dead else 'unproven', subject=site_subject(F, site),
                   why='' if dead else 'call to %s was not reached by any analysed path' % c['path'], nontrivial=False)
    for (entry, site, why) in A.lost:
        chk.ob('%s/analysis-complete/%s/%s' % (PID, cfg, entry), 'R4.2 every path analysed', 'unproven',
               subject=site_subject(F, site) if site else fn_subject(F, entry),
               why='abstract interpretation gave up on a path: %s' % why)


def r43_impl_ranges(chk, F):
    cfg = F.cfg
    impls = conversion_impls(F)
    nf = sum(1 for tr, s, t, im in impls if tr == 'From')
    ntf = sum(1 for tr, s, t, im in impls if tr == 'TryFrom')
    if cfg == 'K1':
        chk.floor('from_impls_K1', FLOORS['from_impls_K1'], nf)
        chk.floor('tryfrom_impls_K1', FLOORS['tryfrom_impls_K1'], ntf)
    chk.extra.setdefault('conversion_impls', {})[cfg] = {'From': nf, 'TryFrom': ntf}
    for tr, src, tgt, im in impls:
        if tr != 'From':
            continue
        rs, rt = type_range(src), type_range(tgt)
        if rs is None or rt is None:
            continue                       # non-integer source (e.g. TimeCodeQuarterFrame): site audit covers it
        if not (tgt['k'] == 'adt' and tgt['path'] in midi.PATH_NEWTYPE):
            continue                       # out-of-newtype direction is C05's cast rule
        ok = rt[0] <= rs[0] and rs[1] <= rt[1]
        chk.ob('%s/impl-range/%s/From<%s> for %s' % (PID, cfg, tyname(src), tyname(tgt)), 'R4.3 impl inventory',
               'proved' if ok else 'refuted', subject={'at': im['span']['callsite'], 'impl': im['path'], 'config': cfg},
               expected='range of %s %s inside range of %s %s' % (tyname(src), list(rs), tyname(tgt), list(rt)),
               found='infallible conversion from a type with values outside the target range' if not ok else 'inside',
               nontrivial=False)


def arg_vs(o, tok):
    return vs_of(tok, o.st.cons)


def r44_exactness(chk, F):
    cfg = F.cfg
    n_fromstr = 0
    for short, path in sorted(NT.items()):
        mx = midi.NEWTYPE_MAX[short]
        rng = VS(0, mx)
        full = VS(*T.irange(midi.NEWTYPE_REPR[short]))
        # ---- checked constructor
        key = '%s/exact/%s/%s::new' % (PID, cfg, short)

        def ev_new(path=path, short=short, key=key, rng=rng, full=full, mx=mx):
            fk = path + '::new'
            if fk not in F.fns:
                return chk.ob(key, 'R4.4 exactness', 'unproven', why='constructor %s not found' % fk)
            I, outs, args = run_fn(F, fk)
            tok = args[0].term
            status, why, found = 'proved', '', []
            covered = VS.of([])
            for o in outs:
                v = arg_vs(o, tok)
                found.append('%s for value in %r' % (o.kind, v))
                covered = covered.join(v)
                if o.kind == 'return':
                    okv = isinstance(o.value, Ag) and o.value.path == path and isinstance(o.value.fields[0], Sc) \
                        and o.value.fields[0].term == tok
                    if not v.subset(rng):
                        status, why = 'refuted', '%s::new returns for value in %r (documented: panics above %d)' % (short, v, mx)
                    elif not okv:
                        status, why = 'refuted', 'returned value %r is not the argument' % (o.value,)
                elif o.kind == 'panic':
                    if not v.meet(rng).empty() and status != 'refuted':
                        status, why = 'refuted', '%s::new panics for in-range value in %r' % (short, v.meet(rng))
                else:
                    if status == 'proved':
                        status, why = 'unproven', '%s outcome: %s' % (o.kind, o.why)
            if status == 'proved' and not full.subset(covered):
                status, why = 'unproven', 'outcomes do not cover the argument type'
            chk.ob(key, 'R4.4 exactness', status, subject=fn_subject(F, fk),
                   expected='returns the value for 0..%d, panics for %d..%d' % (mx, mx + 1, full.hi), found=found, why=why)
        guarded(chk, key, 'R4.4 exactness', ev_new)

        # ---- TryFrom impls
        for tr, src, tgt, im in conversion_impls(F):
            if tr != 'TryFrom' or tgt['k'] != 'adt' or tgt['path'] != path:
                continue
            fk = [it['key'] for it in im['items'] if it['name'] == 'try_from']
            key = '%s/exact/%s/TryFrom<%s> for %s' % (PID, cfg, tyname(src), short)

            def ev_tf(fk=fk, key=key, src=src, path=path, short=short, rng=rng, mx=mx, im=im):
                if not fk:
                    return chk.ob(key, 'R4.4 exactness', 'unproven', why='try_from item missing')
                I, outs, args = run_fn(F, fk[0])
                a = args[0]
                if isinstance(a, Ag) and a.path in midi.PATH_NEWTYPE:
                    a = a.fields[0]
                tok = a.term
                status, why, found = 'proved', '', []
                for o in outs:
                    v = arg_vs(o, tok)
                    if o.kind != 'return' or not isinstance(o.value, Ag):
                        if status != 'refuted':
                            status = 'refuted' if o.kind == 'panic' else 'unproven'
                            why = '%s outcome for value in %r: %s' % (o.kind, v, o.why)
                        found.append('%s for %r' % (o.kind, v))
                        continue
                    isok = o.value.variant == 0
                    found.append('%s for value in %r' % ('Ok' if isok else 'Err', v))
                    if isok:
                        pay = o.value.fields[0]
                        same = isinstance(pay, Ag) and pay.path == path and isinstance(pay.fields[0], Sc) and \
                            (pay.fields[0].term == tok or T.same_value(pay.fields[0].term, tok, o.st.cons, 64))
                        if not v.subset(rng):
                            status, why = 'refuted', 'accepts value in %r, outside 0..%d' % (v, mx)
                        elif not same:
                            status, why = 'refuted', 'Ok payload %r is not the source value' % (pay,)
                    else:
                        if not v.meet(rng).empty() and status != 'refuted':
                            status, why = 'refuted', 'rejects in-range value in %r' % (v.meet(rng),)
                chk.ob(key, 'R4.4 exactness', status, subject={'at': im['span']['callsite'], 'fn': fk[0], 'config': cfg},
                       expected='Ok(value) exactly for 0..%d' % mx, found=found, why=why)
            guarded(chk, key, 'R4.4 exactness', ev_tf)

        # ---- FromStr
        fk = '<%s as core::str::traits::FromStr>::from_str' % path
        key = '%s/exact/%s/%s::from_str' % (PID, cfg, short)
        if fk in F.fns:
            n_fromstr += 1

        def ev_fs(fk=fk, key=key, path=path, short=short, rng=rng, mx=mx):
            if fk not in F.fns:
                return chk.ob(key, 'R4.4 exactness', 'unproven', why='FromStr impl not found')
            I, outs, args = run_fn(F, fk)
            status, why, found = 'proved', '', []
            for o in outs:
                parsed = [e for e in o.st.events if e[0] == 'from_str']
                if o.kind != 'return' or not isinstance(o.value, Ag):
                    status = 'refuted' if o.kind == 'panic' else 'unproven'
                    why = '%s outcome: %s' % (o.kind, o.why)
                    continue
                if len(parsed) != 1 or parsed[0][1] != midi.NEWTYPE_REPR[short]:
                    status, why = 'unproven', 'expected exactly one call of <%s as FromStr>::from_str, saw %r' % (midi.NEWTYPE_REPR[short], parsed)
                    continue
                toks = [t for t in o.st.cons if t[0] == 't' and t[1].startswith('ok#')]
                if o.value.variant == 0:
                    pay = o.value.fields[0]
                    if not (isinstance(pay, Ag) and pay.path == path and isinstance(pay.fields[0], Sc) and pay.fields[0].term in toks):
                        status, why = 'refuted', 'Ok payload %r is not the number returned by the primitive parser' % (pay,)
                        continue
                    v = vs_of(pay.fields[0].term, o.st.cons)
                    found.append('Ok for parsed value in %r' % v)
                    if not v.subset(rng):
                        status, why = 'refuted', 'accepts parsed value in %r, outside 0..%d' % (v, mx)
                else:
                    if toks:
                        v = vs_of(toks[0], o.st.cons)
                        found.append('Err for parsed value in %r' % v)
                        if not v.meet(rng).empty():
                            status, why = 'refuted', 'rejects in-range parsed value in %r' % (v.meet(rng),)
                    else:
                        found.append('Err when the primitive parser fails')
            chk.ob(key, 'R4.4 exactness', status, subject=fn_subject(F, fk),
                   expected='Ok(n) exactly when the primitive parser yields n in 0..%d' % mx, found=found, why=why)
        guarded(chk, key, 'R4.4 exactness', ev_fs)
    if cfg == 'K1':
        chk.floor('fromstr_impls_K1', FLOORS['fromstr_impls_K1'], n_fromstr)


def r45_cfg_hygiene(chk, Fs):
    seen = {}
    for cfg, F in Fs.items():
        for d in F.diags:
            if d.get('code') == 'unexpected_cfgs':
                sp = (d['spans'] or [{}])[0]
                k = '%s/%s' % (sp.get('file'), sp.get('text', '').replace('#[cfg(', '').rstrip(')]'))
                seen.setdefault(k, {'msg': d['message'], 'at': '%s:%s' % (sp.get('file'), sp.get('line')), 'cfgs': set(), 'uses': set()})
                seen[k]['cfgs'].add(cfg)
                for e in d.get('expansion', []):
                    seen[k]['uses'].add('%s:%s' % (e['file'], e['line']))
    for k, v in sorted(seen.items()):
        chk.ob('%s/cfg-hygiene/%s' % (PID, k), 'R4.5 configuration hygiene', 'refuted',
               subject={'at': v['at'], 'configs': sorted(v['cfgs']), 'expanded_at': sorted(v['uses'])},
               expected='every cfg predicate names an existing feature', found=v['msg'],
               why='code under this cfg is compiled in no configuration; rustc unexpected_cfgs', nontrivial=False)
    if not seen:
        chk.ob('%s/cfg-hygiene' % PID, 'R4.5 configuration hygiene', 'proved',
               found='no unexpected_cfgs diagnostic in %s' % sorted(Fs), nontrivial=False)


def run(tier, cmd):
    chk = Check(PID, tier, 'proof',
                'closed-writer audit of the six newtypes over the MIR of every feature configuration: field privacy and '
                'absence of unsafe memory access (E1), value-set audit of every construction site and unsafe-constructor '
                'call site (E2), type-range arithmetic over the From/TryFrom impl table (E1), outcome summaries of new / '
                'TryFrom / FromStr (E2), rustc unexpected_cfgs (E5)',
                cmd, trusted_base=TRUSTED + ['core integer parser returns a value of the primitive type (its grammar is not analysed)'],
                assumptions=['values of the six newtypes that enter an analysed function from outside satisfy their invariant '
                             '(assume/guarantee: every construction site in every configuration is an obligation here)'],
                explanation='')
    # K1r / K2r: the same source with debug assertions off (what a release build compiles): range guards written as
    # `debug_assert!` or under `cfg!(debug_assertions)` do not exist there
    cfgs = ['K1', 'K2', 'K3', 'K1r', 'K2r'] + (['K4'] if tier == 'thorough' else [])
    Fs = load_configs(chk, cfgs, required=('K1', 'K2'))
    total_entries = 0
    for cfg, F in sorted(Fs.items()):
        guarded(chk, '%s/who-may-write/%s' % (PID, cfg), 'R4.1 who-may-write', lambda F=F: r41_who_may_write(chk, F))
        A = guarded(chk, '%s/audit/%s' % (PID, cfg), 'R4.2 construction site', lambda F=F: audit.get(F))
        if A is not None:
            total_entries += len(A.entries)
            chk.extra.setdefault('functions_interpreted', {})[cfg] = len(A.fns_entered)
            chk.extra.setdefault('entry_points', {})[cfg] = len(A.entries)
            chk.extra.setdefault('unmodelled_callees', {})[cfg] = sorted(A.unmodelled)[:20]
            guarded(chk, '%s/ctor-sites/%s' % (PID, cfg), 'R4.2 construction site', lambda F=F, A=A: r42_sites(chk, F, A))
        guarded(chk, '%s/impl-range/%s' % (PID, cfg), 'R4.3 impl inventory', lambda F=F: r43_impl_ranges(chk, F))
        if cfg in ('K1', 'K2', 'K1r', 'K2r') or tier == 'thorough':
            guarded(chk, '%s/exactness/%s' % (PID, cfg), 'R4.4 exactness', lambda F=F: r44_exactness(chk, F))
    guarded(chk, '%s/cfg-hygiene' % PID, 'R4.5 configuration hygiene', lambda: r45_cfg_hygiene(chk, Fs))
    if tier == 'thorough':
        guarded(chk, '%s/witness' % PID, 'E4 compile-fail witness', lambda: witnesses(chk))
    return chk.finish()


def witnesses(chk, prefix=None):
    """E4: outside-user compile-fail witnesses with compiling twins (nightly doc tests)"""
    from .. import witness
    res, out = witness.run()
    want = ['w01_newtype_tuple_ctor_private', 'w02_newtype_field_private', 'w03_new_unchecked_unsafe', 'w04_from_bytes_unchecked_unsafe',
            'w05_raw_tuple_private', 'w06_cc14_fields_private', 'w07_pnm_fields_private', 'w08_scanner_storage_private', 'w09_no_from_i8_for_u14']
    twins = [w.replace('w', 't', 1) for w in want] + ['t10_copy_types']
    for n in want + twins:
        if prefix and not any(n[1:3] == p for p in prefix):
            continue
        r = res.get(n)
        if r is None:
            chk.ob('%s/witness/%s' % (chk.pid, n), 'E4 compile-fail witness', 'unproven', why='witness did not run: %s' % out[-300:], nontrivial=False)
            continue
        kind, ok = r
        chk.ob('%s/witness/%s' % (chk.pid, n), 'E4 compile-fail witness', 'proved' if ok else 'refuted',
               expected='fails to compile with the documented error code' if kind == 'compile_fail' else 'compiles (twin)',
               found='as expected' if ok else 'not as expected', nontrivial=False,
               why='' if ok else ('the violating program compiles (or fails with a different error)' if kind == 'compile_fail' else 'the legal twin does not compile'))
