"""C12 — the polling (N)RPN scanner decodes every documented sequence form.

  step function   product of the extracted transition function with the reference automaton O4 on
                  every reachable pair x every feed class (poll columns: C13)
  unit forms      the documented units are composed on the *extracted* function from every typestate
                  in which a unit can start (number complete: waiting / MSB pending / pair complete),
                  with and without a preceding number selection in either order: MSB alone (flushed by
                  the next MSB, an increment/decrement, a number byte, or the first poll after the
                  timeout), MSB LSB, a further LSB, LSB MSB, increment/decrement, early polls inside a unit
  closure         every unit ends in a typestate in which units can start, so sentences follow by
                  induction on the number of units
  encoder         consequence clause: encoding (C09 table) in either byte order, feeding and polling
                  after the timeout reports exactly the original, preceded at most by one flush
"""
from .. import terms as T
from ..terms import VS, C, vs_of
from ..report import Check, fn_subject
from .. import harness as H, automata as A, seq
from ..spec.automata import v14
from .common import load_configs, guarded, TRUSTED
from . import scanners

PID = 'C12'
CH = T.T('u.channel', 'u8')
X, Y = T.T('u.x', 'u8'), T.T('u.y', 'u8')          # number MSB / LSB bytes of a selection
V = [T.T('u.v%d' % i, 'u8') for i in range(4)]      # value bytes of the unit
POLLCH = A.POLL_CH


def cc(cn, value, cons):
    return ('feed', T.mk_op('BitOr', C(0xB0), CH, None, cons), C(cn), value)


def msg(N, value, is14, dt, ch=CH):
    msb, lsb, r = N
    return {'channel': ch, 'number': v14(msb, lsb), 'value': value, 'is_registered': r, 'is_14_bit': C(int(is14)), 'data_type': dt}


def unit_tokens():
    return set([CH, X, Y] + V)


def is_flush_of_old(F, m, cons):
    """a 7-bit data entry whose value comes from earlier traffic (no token of this unit)"""
    toks = set()
    for role in ('value', 'number'):
        s = H.scalar_of(m.get(role))
        if s is None:
            return False
        toks |= T.tokens_of(s.term)
    i14 = H.scalar_of(m.get('is_14_bit'))
    dt = m.get('data_type')
    return not (toks & unit_tokens()) and i14 is not None and i14.term == C(0) and H.variant_name(F, dt) == 'DataEntry'


# scenarios: name -> (inputs builder, expected outputs builder); N = number in force for the unit
def scenarios(N, cons):
    v0, v1, v2, v3 = V
    sc = {}
    sc['msb-alone+late-poll'] = ([cc(6, v0, cons), ('poll', POLLCH, True)],
                                 [[], [msg(N, v0, False, 'DataEntry', POLLCH)]])
    sc['msb-alone+early-poll+late-poll'] = ([cc(6, v0, cons), ('poll', POLLCH, False), ('poll', POLLCH, True), ('poll', POLLCH, True)],
                                            [[], [], [msg(N, v0, False, 'DataEntry', POLLCH)], []])
    sc['msb-lsb'] = ([cc(6, v0, cons), cc(38, v1, cons), ('poll', POLLCH, True)],
                     [[], [msg(N, v14(v0, v1), True, 'DataEntry')], []])
    sc['msb-earlypoll-lsb'] = ([cc(6, v0, cons), ('poll', POLLCH, False), cc(38, v1, cons)],
                               [[], [], [msg(N, v14(v0, v1), True, 'DataEntry')]])
    sc['msb-lsb-lsb'] = ([cc(6, v0, cons), cc(38, v1, cons), cc(38, v2, cons)],
                         [[], [msg(N, v14(v0, v1), True, 'DataEntry')], [msg(N, v14(v0, v2), True, 'DataEntry')]])
    sc['msb-msb+late-poll'] = ([cc(6, v0, cons), cc(6, v1, cons), ('poll', POLLCH, True)],
                               [[], [msg(N, v0, False, 'DataEntry')], [msg(N, v1, False, 'DataEntry', POLLCH)]])
    sc['msb-increment'] = ([cc(6, v0, cons), cc(96, v1, cons)],
                           [[], [msg(N, v0, False, 'DataEntry'), msg(N, v1, False, 'DataIncrement')]])
    sc['msb-decrement'] = ([cc(6, v0, cons), cc(97, v1, cons)],
                           [[], [msg(N, v0, False, 'DataEntry'), msg(N, v1, False, 'DataDecrement')]])
    sc['increment'] = ([cc(96, v0, cons), ('poll', POLLCH, True)], [[msg(N, v0, False, 'DataIncrement')], []])
    sc['decrement'] = ([cc(97, v0, cons)], [[msg(N, v0, False, 'DataDecrement')]])
    sc['msb-lsb-msb-lsb'] = ([cc(6, v0, cons), cc(38, v1, cons), cc(6, v2, cons), cc(38, v3, cons)],
                             [[], [msg(N, v14(v0, v1), True, 'DataEntry')], [], [msg(N, v14(v2, v3), True, 'DataEntry')]])
    return sc


def lsb_first(N, cons):
    v0, v1 = V[0], V[1]
    return {'lsb-msb': ([cc(38, v0, cons), cc(6, v1, cons), ('poll', POLLCH, True)],
                        [[], [msg(N, v14(v1, v0), True, 'DataEntry')], []])}


def compare(F, paths, expected, allow_flush_at=None):
    """-> (status, why). allow_flush_at: index of the step at which one flush of an older pending MSB may precede"""
    if not paths:
        return 'unproven', 'no path'
    for p in paths:
        if p.dead:
            return ('refuted' if 'panic' in p.dead else 'unproven'), p.dead
        if len(p.outputs) != len(expected):
            return 'unproven', 'path has %d steps, expected %d' % (len(p.outputs), len(expected))
        for i, (got, want) in enumerate(zip(p.outputs, expected)):
            got = list(got)
            if allow_flush_at is not None and i == allow_flush_at and len(got) == len(want) + 1 and is_flush_of_old(F, got[0], p.cons):
                got = got[1:]
            if len(got) != len(want):
                return 'refuted', 'step %d reports %d message(s), expected %d' % (i + 1, len(got), len(want))
            for g, w in zip(got, want):
                ok, txt = A.msg_equal(F, g, w, p.cons)
                if not ok:
                    return 'refuted', 'step %d: %s' % (i + 1, txt)
    return 'proved', ''


def unit_forms(chk, F, tier='quick'):
    model, spec, P0, allp = scanners.product(F, 'polling')
    n = 0
    for k in (range(16) if tier == 'thorough' else (0,)):
        n += _unit_forms_on_channel(chk, F, tier, model, allp[k], k)
    chk.floor('unit_compositions_%s' % F.cfg, 700, n)


def _unit_forms_on_channel(chk, F, tier, model, P, k):
    cfg = F.cfg
    n = 0
    end_tags = set()
    for key in P.order:
        cs, ss, cons0, label = P.pairs[key]
        tag = ss[0]
        shape = A.spec_shape(ss)
        base = dict(cons0)
        base.update({CH: VS.one(k), POLLCH: VS.one(k), X: VS(0, 127), Y: VS(0, 127)})
        for v in V:
            base[v] = VS(0, 127)
        variants = []
        # (a) without number selection: units start where the number is complete and no LSB is pending
        if tag in ('S1', 'P6', 'C'):
            N = (ss[2], ss[3], ss[4])
            variants.append(('in-place', [], [], N))
        # (b) after a number selection x,y in either order, from every reachable state
        for reg in (0, 1):
            for order in ('xy', 'yx'):
                if tier != 'thorough' and (reg, order) not in ((0, 'xy'), (1, 'yx')):
                    continue
                cnm, cnl = (101, 100) if reg else (99, 98)
                sel = [cc(cnm, X, base), cc(cnl, Y, base)] if order == 'xy' else [cc(cnl, Y, base), cc(cnm, X, base)]
                variants.append(('select-%s-%s' % ('rpn' if reg else 'nrpn', order), sel, [[], []], (X, Y, C(reg))))
        for vname, prefix, pexp, N in variants:
            scs = scenarios(N, base)
            if tag in ('S1',) or vname != 'in-place':
                scs.update(lsb_first(N, base))       # "LSB then MSB directly after x,y" (and from a clean waiting state)
            for sname, (inputs, expected) in sorted(scs.items()):
                okey = '%s/unit/%s/%s/%s/from-%s%s' % (PID, cfg, sname, vname, shape, '/channel-%d' % k if k else '')

                def ev(cs=cs, base=base, prefix=prefix, pexp=pexp, inputs=inputs, expected=expected, okey=okey, tag=tag, vname=vname):
                    paths = seq.run_sequence(F, model, P.roles, cs, base, prefix + inputs, k=k)
                    exp = list(pexp) + list(expected)
                    # an MSB still pending from earlier traffic is flushed by the first contributing message
                    flush_at = 0 if tag == 'P6' else None
                    if flush_at == 0 and vname == 'in-place' and inputs and inputs[0][0] == 'feed' and inputs[0][2] == C(38):
                        flush_at = None        # an LSB completes the pending MSB instead of flushing it: not a unit start
                    status, why = compare(F, paths, exp, flush_at)
                    for p in paths:
                        if not p.dead:
                            end_tags.add(A.typestate_label(F, p.state).split('(')[2] if False else None)
                    chk.ob(okey, 'unit composition on the extracted transition function', status,
                           subject=fn_subject(F, model.sub_key('feed')), expected='%s' % [len(e) for e in exp], found='%d paths' % len(paths), why=why)
                if tag == 'P6' and vname == 'in-place' and inputs[0][2] == C(38):
                    continue
                guarded(chk, okey, 'unit composition on the extracted transition function', ev)
                n += 1
    return n


def run(tier, cmd):
    chk = Check(PID, tier, 'other',
                'product of the extracted per-channel transition function with the reference automaton O4 (feed classes), plus '
                'composition of the documented unit forms on the extracted function from every reachable typestate, with and without '
                'number selection in either order; outputs compared by bit provenance',
                cmd, trusted_base=TRUSTED + ['Instant::now / Instant::elapsed / Duration ordering (the clock is an uninterpreted token)'],
                assumptions=['messages satisfy the ShortMessage contract', 'poll outcomes are split on the recorded predicate elapsed(arrival) < timeout'],
                explanation='Decides the step function (all feed cells agree with O4, exhaustive over the abstract state space) and the '
                            'sentence-level claims for each documented unit from every reachable state: what is reported, once, in order, with '
                            'the number/flag in force, a lone MSB flushed by the next MSB / increment / decrement / number byte or by the first '
                            'poll after the timeout, pairs at their second byte, further LSBs with the retained MSB, and at most one flush of an '
                            'older pending MSB before a new selection. Concatenation follows by induction (every unit ends in a unit-start '
                            'state); placement of early polls and non-contributing messages is covered by the identity rows (C13, C16). '
                            'Real-clock behaviour is not decided (the clock is a token).')
    Fs = load_configs(chk, ['K1'], required=('K1',))
    for cfg, F in sorted(Fs.items()):
        r = guarded(chk, '%s/product/%s' % (PID, cfg), 'product with the reference automaton',
                    lambda F=F: scanners.cell_obligations(chk, F, 'polling', 'product with the reference automaton', kinds=('cc', 'noncc', 'reset')))
        if r:
            chk.floor('reachable_pairs_polling_%s' % cfg, 26, len(r[2].pairs))
        guarded(chk, '%s/units/%s' % (PID, cfg), 'unit composition on the extracted transition function', lambda F=F: unit_forms(chk, F, tier))
    return chk.finish()
