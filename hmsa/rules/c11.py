"""C11 — the (N)RPN scanner reports exactly the justified messages (product with O3)."""
from ..report import Check
from .common import load_configs, guarded, TRUSTED
from . import scanners

PID = 'C11'


def run(tier, cmd):
    chk = Check(PID, tier, 'model_checking',
                'abstract one-step transition function of the per-channel (N)RPN scanner in synchronous product with the reference '
                'automaton O3 (state: latest number MSB / LSB, registered flag of the latest number byte, controller-38 value since the '
                'latest number byte); every reachable pair x 14 input classes',
                cmd, trusted_base=TRUSTED,
                assumptions=['messages fed satisfy the ShortMessage contract (valid status byte, 7-bit data bytes)'],
                explanation='Exhaustive over the abstract state space (fixpoint). Each cell compares every field of the reported message '
                            '(channel, number = 128 x MSB + LSB, value, registered flag, resolution, data type) with the reference by bit '
                            'provenance / constants; non-reporting cells must report nothing.')
    Fs = load_configs(chk, ['K1', 'K2'], required=('K1',))
    for cfg, F in sorted(Fs.items()):
        r = guarded(chk, '%s/product/%s' % (PID, cfg), 'product with the reference automaton',
                    lambda F=F: scanners.cell_obligations(chk, F, 'pn', 'product with the reference automaton'))
        if r:
            model, spec, P = r
            chk.floor('reachable_pairs_pn_%s' % cfg, 14, len(P.pairs))
            chk.extra['traces_validated_against_impl'] = 0
            chk.extra['exhaustive'] = True
    return chk.finish()
