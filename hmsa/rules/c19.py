"""C19 — deserialization enforces the same invariants as the constructors.

Configuration serde + serde_repr (K3; K4 = without std in the thorough tier).  The derive-generated
`Deserialize` code is ordinary MIR and goes through the same construction-site audit as C04:
  * every Deserialize impl for a local type is enumerated;
  * for each invariant-carrying type (six newtypes, RawShortMessage, ControlChange14BitMessage,
    ParameterNumberMessage) every construction site inside generated deserialization code must
    establish the invariant from its operands - which a plain derive cannot, because the operands
    come straight from the deserializer - or there must be no such site (delegation to a validating
    TryFrom, whose own construction sites are audited like any other code);
  * types whose validity is exactly the validity of their fields need only: no unsafe construct.
Declined: "the natural representation of every valid value deserializes to an equal value" depends
on serde's data model at run time; only its shape condition is checked: the try_from source type
can represent what Serialize emits (integers), and a struct / tuple mirror named by
serde(try_from = ...) has the serialized type's fields with the same names, types and order.
"""
from .. import audit, scan, invariants, terms as T
from ..terms import VS
from ..report import Check, site_subject, fn_subject
from ..spec import midi
from .common import load_configs, guarded, short_ty, TRUSTED

PID = 'C19'
DESER = ('serde_core::de::Deserialize', 'serde::de::Deserialize')
SER = ('serde_core::ser::Serialize', 'serde::ser::Serialize')
TRACKED = set(midi.NEWTYPE_PATH.values()) | set(invariants.STRUCTS)
FIELDWISE = ('structured_short_message::StructuredShortMessage', 'short_message::TimeCodeQuarterFrame', 'short_message::TimeCodeType',
             'short_message::ShortMessageType', 'parameter_number_message::DataType')


def deser_impls(F):
    return [im for im in F.impls if im.get('trait') in DESER and im['self']['k'] == 'adt' and im['self']['path'] in F.adts]


def sites_clause(chk, F, A, base_fns=None):
    cfg = F.cfg
    impls = deser_impls(F)
    have = {im['self']['path'] for im in impls}
    chk.floor('deserialize_impls_%s' % cfg, 14, len(impls))
    for p in sorted(TRACKED):
        if p not in have:
            chk.ob('%s/deser-impl/%s/%s' % (PID, cfg, short_ty(p)), 'Deserialize inventory', 'unproven',
                   expected='a Deserialize impl under the serde feature', found='none', why='cannot audit a missing impl', nontrivial=False)
    # all construction sites of tracked types inside serde-generated code
    static_sites = [(s, p, v) for s, p, v in scan.aggregate_sites(F, TRACKED) if scan.is_serde_generated(F, s[0])]
    by_type = {}
    for s, p, v in static_sites:
        by_type.setdefault(p, []).append(s)
    for p in sorted(TRACKED & have):
        short = short_ty(p)
        key = '%s/deser-site/%s/%s' % (PID, cfg, p)
        sites = by_type.get(p, [])
        if not sites:
            # delegation: the generated code builds the value only through a conversion
            im = [i for i in impls if i['self']['path'] == p][0]
            chk.ob(key, 'deserialization construction site', 'proved', subject={'at': im['span']['callsite'], 'config': cfg},
                   expected='no unchecked construction in generated code', found='no construction site: values are produced by a validating conversion (audited by C04/C07/C09 site rules)')
            continue
        status, why, found = 'proved', '', []
        for site in sites:
            obs = A.ctor.get(site, [])
            at = site_subject(F, site).get('at')
            if not obs:
                status, why = 'unproven', 'site at %s (%s) not reached by the audit' % (at, site[0][-60:])
                continue
            for (pp, variant, fields, extra, stack) in obs:
                if p in midi.PATH_NEWTYPE:
                    mx = midi.NEWTYPE_MAX[short]
                    v = fields[0] if fields else None
                    if v is None or not v.subset(VS(0, mx)):
                        status = 'refuted'
                        why = 'deserialized %s is built from a value in %r without a range check (generated code at %s)' % (short, v, at)
                else:
                    ok, txt = extra if extra else (None, 'no invariant evaluation')
                    if len(found) < 3:
                        found.append(txt)
                    if ok is None:
                        if status != 'refuted':
                            status, why = 'unproven', txt
                    elif not ok:
                        status = 'refuted'
                        why = 'deserialized %s violates its constructor invariant: %s (derive-generated code at %s, in %s)' % (short, txt, at, site[0].split('::')[-1])
        chk.ob(key, 'deserialization construction site', status, subject=site_subject(F, sites[0]),
               expected='operands establish the invariant of %s, or construction goes through a validating TryFrom' % short,
               found=found or ['%d sites' % len(sites)], why=why)
    # validating conversions that exist only in the serde configuration (the targets of serde(try_from = ...)):
    # their construction sites are where the invariant must be re-established
    base = base_fns or set()
    # ... and the conversions the generated Deserialize bodies actually call (`serde(try_from = ..)` may name a conversion
    # that also exists without the serde feature, such as TryFrom<(u8, U7, U7)> for RawShortMessage)
    gates = set()
    for site, c, t in scan.call_sites(F):
        if c and scan.is_serde_generated(F, site[0]) and 'Deserialize' in site[0] and c.get('path') == 'core::convert::TryFrom::try_from' \
                and c.get('resolved') and c['resolved'] in F.fns:
            gates.add(c['resolved'])
    conv_sites = [(st, p, v) for st, p, v in scan.aggregate_sites(F, TRACKED)
                  if not scan.is_serde_generated(F, st[0]) and (st[0] not in base or st[0] in gates)]
    groups = {}
    for st, p, v in conv_sites:
        groups.setdefault((st[0], p), []).append(st)
    for (fnk, p), sites in sorted(groups.items()):
        short = short_ty(p)
        status, why, found = 'proved', '', []
        for site in sites:
            obs = A.ctor.get(site, [])
            at = site_subject(F, site).get('at')
            if not obs:
                status, why = 'unproven', 'site at %s not reached by the audit' % at
            for (pp, variant, fields, extra, stack) in obs:
                if p in midi.PATH_NEWTYPE:
                    v0 = fields[0] if fields else None
                    if v0 is None or not v0.subset(VS(0, midi.NEWTYPE_MAX[short])):
                        status, why = 'refuted', '%s built from a value in %r at %s' % (short, v0, at)
                elif extra is not None:
                    ok, txt = extra
                    found.append(txt)
                    if ok is None and status != 'refuted':
                        status, why = 'unproven', txt
                    elif ok is False:
                        status, why = 'refuted', 'the conversion used for deserialization lets through a value no constructor can build: %s (at %s)' % (txt, at)
        chk.ob('%s/deser-conversion-site/%s/%s' % (PID, cfg, fnk), 'deserialization construction site', status, subject=site_subject(F, sites[0]),
               expected='the validating conversion establishes the invariant of %s' % short, found=found[:2], why=why)
    # unsafe constructor calls inside generated code
    for site, lst in A.unsafe_calls.items():
        if not scan.is_serde_generated(F, site[0]):
            continue
        for (callee, txt, ok, stack) in lst:
            chk.ob('%s/deser-unsafe-call/%s/%s' % (PID, cfg, site[0]), 'deserialization construction site',
                   'proved' if ok else ('refuted' if ok is False else 'unproven'), subject=site_subject(F, site), found=txt)
    # types valid exactly when their fields are: no unsafe construct anywhere (K3 MIR)
    uc = scan.unsafe_constructs(F)
    chk.ob('%s/no-unsafe-memory/%s' % (PID, cfg), 'field-wise valid types', 'proved' if not uc else 'refuted',
           expected='no transmute / raw pointer / union / static mut in the serde configuration',
           found=[(k, site_subject(F, s).get('at') if s else None, t) for k, s, t in uc][:5], nontrivial=False)
    for p in FIELDWISE:
        ok = p in have
        chk.ob('%s/fieldwise/%s/%s' % (PID, cfg, short_ty(p)), 'field-wise valid types', 'proved' if ok else 'unproven',
               expected='Deserialize impl present; validity = validity of the fields (each field type audited above)', found=ok, nontrivial=False)
    # paths the audit lost inside generated code
    for (entry, site, why) in A.lost:
        if scan.is_serde_generated(F, entry):
            chk.ob('%s/analysis-complete/%s/%s' % (PID, cfg, entry), 'deserialization construction site', 'unproven',
                   subject=site_subject(F, site) if site else fn_subject(F, entry), why='abstract interpretation gave up: %s' % why)
    # shape condition for round trips: try_from source type can hold what Serialize emits
    for short, p in sorted(midi.NEWTYPE_PATH.items()):
        rep = midi.NEWTYPE_REPR[short]
        tf = [im for im in F.impls if im.get('trait') == 'core::convert::TryFrom' and im['self']['k'] == 'adt' and im['self']['path'] == p
              and im['trait_args'][1].get('name') == 'u16']
        ok = bool(tf) and T.INT_BITS[rep] <= 16
        chk.ob('%s/roundtrip-shape/%s/%s' % (PID, cfg, short), 'round-trip shape condition', 'proved' if ok else 'unproven',
               expected='TryFrom<u16> exists and the serialized representation %s fits u16' % rep, found=ok, nontrivial=False)


def mirror_shape_clause(chk, F):
    """round trips through a `serde(try_from = "S")` mirror: what the derived Serialize of T writes (T's fields, by
    name and in declaration order) must be what the derived Deserialize of S reads (S's fields, by name for map
    formats, by position for sequence formats)"""
    from ..mirpp import ty_str
    cfg = F.cfg
    pairs = {}
    ser_via = {}
    for site, c, t in scan.call_sites(F):
        if not c or not scan.is_serde_generated(F, site[0]):
            continue
        a = c.get('args') or []
        if c.get('path') == 'core::convert::TryFrom::try_from' and len(a) >= 2 and a[0].get('k') == 'adt' and 'Deserialize' in site[0]:
            pairs[a[0]['path']] = a[1]
        if c.get('path') in ('core::convert::Into::into', 'core::convert::From::from') and 'Serialize' in site[0] and 'Deserialize' not in site[0]:
            tys = [x for x in a if x.get('k') == 'adt']
            if len(tys) >= 2:
                ser_via[tys[0]['path'] if c.get('path').endswith('into') else tys[1]['path']] = tys[1] if c.get('path').endswith('into') else tys[0]
    n = 0
    for tp, sty in sorted(pairs.items()):
        if tp in midi.PATH_NEWTYPE or tp not in F.adts:
            continue        # the six integer types: roundtrip-shape obligations below
        n += 1
        tad = F.adts[tp]
        key = '%s/roundtrip-shape/%s/%s' % (PID, cfg, short_ty(tp))
        tfields = [(f['name'], ty_str(f['ty'])) for f in tad['variants'][0]['fields']]
        via = ser_via.get(tp)
        if via is not None:
            same = ty_str(via) == ty_str(sty)
            chk.ob(key, 'round-trip shape condition', 'proved' if same else 'unproven', subject={'at': tad['span']['at'], 'type': tp},
                   expected='serialized through the same mirror type it is deserialized from', found='into %s / try_from %s' % (ty_str(via), ty_str(sty)),
                   why='' if same else 'serialization and deserialization go through different intermediate types', nontrivial=False)
            continue
        if sty.get('k') == 'adt' and sty['path'] in F.adts:
            sfields = [(f['name'], ty_str(f['ty'])) for f in F.adts[sty['path']]['variants'][0]['fields']]
            ok = sfields == tfields
            why = ''
            if not ok:
                if sorted(sfields) == sorted(tfields):
                    why = 'same fields in a different order: formats that write structs as sequences read them crosswise (%s vs %s)' % (
                        [n_ for n_, _ in tfields], [n_ for n_, _ in sfields])
                else:
                    why = 'the mirror %s does not have the fields the serialized %s has: %s vs %s' % (sty['path'].split('::')[-1], short_ty(tp), sfields, tfields)
            chk.ob(key, 'round-trip shape condition', 'proved' if ok else 'refuted', subject={'at': F.adts[sty['path']]['span']['at'], 'type': sty['path']},
                   expected='the deserialization mirror has the fields of %s: same names, types and order' % short_ty(tp), found=[n_ for n_, _ in sfields], why=why)
        elif len(tfields) == 1:
            ok = tfields[0][1] == ty_str(sty)
            chk.ob(key, 'round-trip shape condition', 'proved' if ok else 'refuted', subject={'at': tad['span']['at'], 'type': tp},
                   expected='the try_from source type is the type of the single serialized field (%s)' % tfields[0][1], found=ty_str(sty),
                   why='' if ok else 'the serialized form of %s is its field of type %s, deserialization expects %s' % (short_ty(tp), tfields[0][1], ty_str(sty)))
        else:
            chk.ob(key, 'round-trip shape condition', 'unproven', why='try_from source %s of a multi-field struct is not a struct' % ty_str(sty), nontrivial=False)
    return n


def run(tier, cmd):
    chk = Check(PID, tier, 'other',
                'construction-site audit (value-set abstract interpretation, struct invariants) of the derive-generated Deserialize '
                'bodies compiled with --features serde,serde_repr; Deserialize impl inventory; unsafe-construct scan',
                cmd, trusted_base=TRUSTED + ['serde: a derived Deserialize with #[serde(try_from = "T")] produces values only through TryFrom<T> '
                                              '(the generated body is nevertheless in the audited MIR)'],
                assumptions=['values handed out by the deserializer for a field type are valid values of that field type (each field type is itself audited)'],
                explanation='Decides "deserialization either fails or yields a value the checked constructors could have built" for every local type '
                            'with a Deserialize impl: restricted integers, RawShortMessage, ControlChange14BitMessage, ParameterNumberMessage by the '
                            'construction-site audit of the generated code; StructuredShortMessage, TimeCodeQuarterFrame and the enums because their '
                            'validity is the validity of their (audited) fields and no unsafe construct exists. Not decided: the round-trip '
                            'clause (serde data model at run time); only its shape condition is checked.')
    cfgs = ['K1', 'K3'] + (['K2', 'K4'] if tier == 'thorough' else [])
    Fs = load_configs(chk, cfgs, required=('K3',))
    bases = {'K3': set(Fs['K1'].fns) if 'K1' in Fs else None, 'K4': set(Fs['K2'].fns) if 'K2' in Fs else None}
    for cfg, F in sorted(Fs.items()):
        if cfg in ('K1', 'K2'):
            continue
        A = guarded(chk, '%s/audit/%s' % (PID, cfg), 'deserialization construction site', lambda F=F: audit.get(F))
        if A is not None:
            chk.extra.setdefault('functions_interpreted', {})[cfg] = len(A.fns_entered)
            guarded(chk, '%s/sites/%s' % (PID, cfg), 'deserialization construction site', lambda F=F, A=A: sites_clause(chk, F, A, bases.get(F.cfg)))
            guarded(chk, '%s/mirror-shape/%s' % (PID, cfg), 'round-trip shape condition', lambda F=F: mirror_shape_clause(chk, F))
    return chk.finish()
