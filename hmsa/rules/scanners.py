"""Shared obligations over the scanner products (used by C07-C17)."""
from .. import automata as A, terms as T
from ..terms import VS, vs_of
from ..interp import Sc, Ag, Ar
from ..report import fn_subject
from ..spec import automata as S
from .. import harness as H

SCANNERS = {
    'cc14': (S.CC14Spec, 'ControlChange14BitMessageScanner'),
    'pn': (S.PNSpec, 'ParameterNumberMessageScanner'),
    'polling': (S.PollingSpec, 'PollingParameterNumberMessageScanner'),
}


def product(F, which):
    cls, name = SCANNERS[which]
    return A.product_for(F, cls, name)


def channels_of(allp):
    return sorted(allp)


def cell_obligations(chk, F, which, rule, classes=None, kinds=None, prefix='cell', tags=('behaviour',)):
    """one obligation per (reachable pair shape, input class): the outer scanner, seen from each of the 16
    channels, and the reference automaton agree (obligation keys are those of channel 0; the other channels
    must reach the same shapes and are merged into them)"""
    model, spec, P, allp = product(F, which)
    cfg = F.cfg
    shapes0 = [A.spec_shape(P.pairs[key][1]) for key in P.order]
    # (shape, class) -> [(channel, text)]
    bad = {}
    rows_of = {}
    for k in channels_of(allp):
        Pk = allp[k]
        shape_of = dict((key, A.spec_shape(Pk.pairs[key][1])) for key in Pk.order)
        for mm in Pk.mismatches:
            key, cname, text = mm[:3]
            if (mm[3] if len(mm) > 3 else 'behaviour') not in tags:
                continue
            bad.setdefault((shape_of.get(key, 'init'), cname), []).append((k, text))
        if k == 0:
            for r in Pk.rows:
                rows_of.setdefault((shape_of[r.pair_key], r.cname), []).append(r)
        shapes_k = set(shape_of[key] for key in Pk.order)
        if shapes_k != set(shapes0) and classes is None and kinds is None and not Pk.mismatches and not P.mismatches:
            # (with mismatches the explorations stop at different places; those are reported on their own cells)
            bad.setdefault(('init', 'init'), []).append((k, 'channel %d reaches typestates %s that channel 0 does not, channel 0 reaches %s that channel %d does not' % (
                k, sorted(shapes_k - set(shapes0)) or '-', sorted(set(shapes0) - shapes_k) or '-', k)))
    n = 0
    seen = set()
    for idx, key in enumerate(P.order):
        cs, ss, cons, label = P.pairs[key]
        shape = shapes0[idx]
        for cname, kind, rng in spec.classes:
            if classes is not None and cname not in classes:
                continue
            if kinds is not None and kind not in kinds:
                continue
            if kind == 'reset' and not model.outer_key('reset'):
                continue
            seen.add((shape, cname))
            rows = rows_of.get((shape, cname), [])
            okey = '%s/%s/%s/%s/%s/%s' % (chk.pid, prefix, cfg, which, shape, cname)
            mm = bad.get((shape, cname))
            fk = model.sub_key('poll' if kind == 'poll' else 'reset' if kind == 'reset' else 'feed')
            if mm:
                chans = sorted(set(k for k, _ in mm))
                texts = []
                for k, t in mm:
                    if t not in texts:
                        texts.append(t)
                chk.ob(okey, rule, verdict(texts),
                       subject=fn_subject(F, fk) if fk else {},
                       expected='as the reference automaton: %s' % describe_leafs(spec, ss, cname, kind),
                       found=[describe_row(F, r) for r in rows[:4]],
                       why='channel(s) %s, state %s, input %s: %s' % (_chan_str(chans), A.typestate_label(F, cs), cname, '; '.join(texts)[:600]))
            elif not rows:
                chk.ob(okey, rule, 'unproven', why='no outcome for this cell')
            else:
                n += 1
                chk.ob(okey, rule, 'proved', subject=fn_subject(F, fk) if fk else {},
                       expected=describe_leafs(spec, ss, cname, kind), found=[describe_row(F, r) for r in rows[:3]],
                       sample={'state': A.typestate_label(F, cs), 'input': cname, 'outcomes': [describe_row(F, r) for r in rows[:3]]} if n % 17 == 1 else None)
    # mismatches that belong to no channel-0 cell (initial state, typestates only other channels reach)
    cls_kind = dict((c, k) for c, k, _ in spec.classes)
    for (shape, cname), mm in sorted(bad.items()):
        if (shape, cname) in seen:
            continue
        if cname in cls_kind and ((classes is not None and cname not in classes) or (kinds is not None and cls_kind[cname] not in kinds)):
            continue
        chans = sorted(set(k for k, _ in mm))
        texts = []
        for k, t in mm:
            if t not in texts:
                texts.append(t)
        okey = '%s/%s/%s/%s/%s/%s' % (chk.pid, prefix, cfg, which, shape, cname)
        chk.ob(okey, rule, verdict(texts),
               subject=fn_subject(F, model.sub_key('feed')) if model.sub_key('feed') else {},
               expected='as the reference automaton', found='',
               why='channel(s) %s: %s' % (_chan_str(chans), '; '.join(texts)[:600]))
    tot_pairs = sum(len(p.pairs) for p in allp.values())
    tot_rows = sum(len(p.rows) for p in allp.values())
    chk.extra.setdefault('automaton', {})[which] = {'channels': len(allp), 'reachable_pairs_per_channel': len(P.pairs), 'rows_per_channel': len(P.rows),
                                                     'reachable_pairs': tot_pairs, 'rows': tot_rows,
                                                     'interpreter_steps': sum(p.steps for p in allp.values()),
                                                     'functions_interpreted': len(set().union(*[p.fns for p in allp.values()]))}
    chk.extra['states'] = chk.extra.get('states', 0) + tot_pairs
    chk.extra['transitions'] = chk.extra.get('transitions', 0) + tot_rows
    chk.floor('channels_%s_%s' % (which, cfg), 16, len(allp))
    return model, spec, P


def verdict(texts):
    """refuted unless every reason is one of the 'could not decide' kinds"""
    soft = lambda m: 'unproven:' in m or 'unmodelled' in m or 'lost' in m or 'could not be interpreted' in m
    return 'unproven' if all(soft(m) for m in texts) else 'refuted'


def _chan_str(chans):
    return 'all' if len(chans) == 16 else ','.join(str(c) for c in chans)


def describe_row(F, r):
    if r.outcome_kind != 'return':
        return '%s (%s)' % (r.outcome_kind, r.why)
    preds = ' under ' + ' & '.join(T.pred_str(p) for p in r.preds) if r.preds else ''
    outs = []
    for m in (r.outputs or []):
        outs.append('{' + ', '.join('%s: %s' % (k, H.describe(v, r.cons_out) if not isinstance(v, Ag) or v.path in H.midi.PATH_NEWTYPE else H.variant_name(F, v))
                                    for k, v in sorted(m.items()) if k != '__path' and v is not None) + '}')
    return 'reports [%s]%s -> %s' % ('; '.join(outs), preds, A.typestate_label(F, r.code_out) if r.code_out is not None else '?')


def describe_leafs(spec, ss, cname, kind):
    cur = S.Cur(T.T('ch', 'u8'), T.T('cn', 'u8'), T.T('cv', 'u8'), T.T('now', 'opaque'))
    tree = spec.step(ss, cname, kind, cur)

    def d(t):
        if t[0] == 'leaf':
            return '%d message(s) -> %s' % (len(t[1]), A.spec_shape(t[2]))
        return 'if %s then %s else %s' % (T.tstr(t[1]), d(t[2]), d(t[3]))
    return d(tree)


def reachable_invariants(chk, F, which, rule):
    """facts about every reachable code typestate that other properties rely on"""
    model, spec, P, allp = product(F, which)
    return P


def reachable_site_verdicts(F):
    """construction sites inside scanner code, judged on the reachable typestates of the three products (all channels):
    -> (site -> [ok, text, visits], complete, private scanner types).  `complete` is False when some exploration was cut
    short or lost a path, in which case an absent bad observation proves nothing."""
    out, complete, types = {}, True, set()
    rank = {True: 0, None: 1, False: 2}
    for which, (cls, name) in SCANNERS.items():
        if which == 'polling' and 'std' not in F.features:
            continue
        try:
            model, spec, P, allp = product(F, which)
        except Exception:       # noqa
            complete = False
            continue
        types |= scanner_types(F, model)
        for k, Pk in allp.items():
            # (rows that disagree with the reference automaton are not followed up: the reachable set is then incomplete)
            if getattr(Pk, 'exhausted', False) or Pk.mismatches or any(r.outcome_kind == 'lost' for r in Pk.rows):
                complete = False
            for site, (ok, txt, n) in getattr(Pk, 'site_ok', {}).items():
                cur = out.get(site)
                if cur is None:
                    out[site] = [ok, txt, n]
                else:
                    cur[2] += n
                    if rank[ok] > rank[cur[0]]:
                        cur[0], cur[1] = ok, txt
    return out, complete, types


def scanner_types(F, model):
    """the public scanner type and the crate-private types its state is made of"""
    seen = set([model.outer])

    def walk(ty):
        if ty['k'] == 'adt':
            ad = F.adts.get(ty['path'])
            if ad is not None and ty['path'] not in seen and not ad['vis'] == 'Public':
                seen.add(ty['path'])
                for v in ad['variants']:
                    for f in v['fields']:
                        walk(f['ty'])
            for a in ty.get('args') or []:
                if a.get('k') not in ('lifetime', 'constarg'):
                    walk(a)
        elif ty['k'] in ('array', 'slice', 'ref'):
            walk(ty['ty'])
        elif ty['k'] == 'tuple':
            for t in ty['tys']:
                walk(t)
    for f in F.adts[model.outer]['variants'][0]['fields']:
        walk(f['ty'])
    return seen
