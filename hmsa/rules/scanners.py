"""Shared obligations over the scanner products (used by C07-C17)."""
from .. import automata as A, terms as T
from ..terms import VS, vs_of
from ..interp import Sc, Ag, Ar
from ..report import fn_subject
from ..spec import automata as S
from .. import harness as H

SCANNERS = {
    'cc14': (S.CC14Spec, 'ControlChange14BitMessageScanner'),
    'pn': (S.PNSpec, 'ParameterNumberMessageScanner'),
    'polling': (S.PollingSpec, 'PollingParameterNumberMessageScanner'),
}


def product(F, which):
    cls, name = SCANNERS[which]
    return A.product_for(F, cls, name)


def cell_obligations(chk, F, which, rule, classes=None, kinds=None, prefix='cell'):
    """one obligation per (reachable pair shape, input class): code and reference automaton agree"""
    model, spec, P = product(F, which)
    cfg = F.cfg
    bad = {}
    for key, cname, text in P.mismatches:
        bad.setdefault((key, cname), []).append(text)
    n = 0
    for key in P.order:
        cs, ss, cons, label = P.pairs[key]
        shape = A.spec_shape(ss)
        for cname, kind, rng in spec.classes:
            if classes is not None and cname not in classes:
                continue
            if kinds is not None and kind not in kinds:
                continue
            if kind == 'reset' and not model.sub_key('reset'):
                continue
            rows = [r for r in P.rows if r.pair_key == key and r.cname == cname]
            okey = '%s/%s/%s/%s/%s/%s' % (chk.pid, prefix, cfg, which, shape, cname)
            mm = bad.get((key, cname))
            fk = model.sub_key('poll' if kind == 'poll' else 'reset' if kind == 'reset' else 'feed')
            if mm:
                chk.ob(okey, rule, 'refuted' if not any('unmodelled' in m or 'lost' in m for m in mm) else 'unproven',
                       subject=fn_subject(F, fk) if fk else {},
                       expected='as the reference automaton: %s' % describe_leafs(spec, ss, cname, kind),
                       found=[describe_row(F, r) for r in rows][:4],
                       why='state %s, input %s: %s' % (A.typestate_label(F, cs), cname, '; '.join(mm)[:600]))
            elif not rows:
                chk.ob(okey, rule, 'unproven', why='no outcome for this cell')
            else:
                n += 1
                chk.ob(okey, rule, 'proved', subject=fn_subject(F, fk) if fk else {},
                       expected=describe_leafs(spec, ss, cname, kind), found=[describe_row(F, r) for r in rows][:3],
                       sample={'state': A.typestate_label(F, cs), 'input': cname, 'outcomes': [describe_row(F, r) for r in rows][:3]} if n % 17 == 1 else None)
    chk.extra.setdefault('automaton', {})[which] = {'reachable_pairs': len(P.pairs), 'rows': len(P.rows),
                                                     'interpreter_steps': P.steps, 'functions_interpreted': len(P.fns)}
    chk.extra['states'] = chk.extra.get('states', 0) + len(P.pairs)
    chk.extra['transitions'] = chk.extra.get('transitions', 0) + len(P.rows)
    return model, spec, P


def describe_row(F, r):
    if r.outcome_kind != 'return':
        return '%s (%s)' % (r.outcome_kind, r.why)
    preds = ' under ' + ' & '.join(T.pred_str(p) for p in r.preds) if r.preds else ''
    outs = []
    for m in (r.outputs or []):
        outs.append('{' + ', '.join('%s: %s' % (k, H.describe(v, r.cons_out) if not isinstance(v, Ag) or v.path in H.midi.PATH_NEWTYPE else H.variant_name(F, v))
                                    for k, v in sorted(m.items()) if k != '__path' and v is not None) + '}')
    return 'reports [%s]%s -> %s' % ('; '.join(outs), preds, A.typestate_label(F, r.code_out) if r.code_out is not None else '?')


def describe_leafs(spec, ss, cname, kind):
    cur = S.Cur(T.T('ch', 'u8'), T.T('cn', 'u8'), T.T('cv', 'u8'), T.T('now', 'opaque'))
    tree = spec.step(ss, cname, kind, cur)

    def d(t):
        if t[0] == 'leaf':
            return '%d message(s) -> %s' % (len(t[1]), A.spec_shape(t[2]))
        return 'if %s then %s else %s' % (T.tstr(t[1]), d(t[2]), d(t[3]))
    return d(tree)


def reachable_invariants(chk, F, which, rule):
    """facts about every reachable code typestate that other properties rely on"""
    model, spec, P = product(F, which)
    return P
