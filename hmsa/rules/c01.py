"""C01 — short messages preserve their bytes: lossless, canonical round trips.

  from-bytes     outcome summary of the trait default `from_bytes` (abstract factory, Raw, Structured):
                 Ok exactly for status >= 0x80, bytes reach from_bytes_unchecked unchanged
  raw            getters(from_bytes_unchecked(b)) == b by token identity
  structured     per status class: getters(from_bytes_unchecked(b)) == b with only the information-free
                 parts zeroed (oracle: which data bytes each type carries; reserved quarter-frame bit)
  value-roundtrip per StructuredShortMessage value (23 variants, 11 quarter-frame shapes):
                 value -> bytes -> value, value -> Raw -> value, to_structured() are the identity
  codecs         TimeCodeQuarterFrame <-> U7 and ShortMessageType <-> u8 on their own
"""
from .. import terms as T
from ..terms import VS, C, vs_of
from ..interp import Interp, Sc, Ag, Un, Rf
from ..models import find_impl
from ..report import Check, fn_subject
from ..spec import midi
from .. import harness as H
from .common import load_configs, guarded, TRUSTED
from .c02 import classes

PID = 'C01'
TQ = 'short_message::TimeCodeQuarterFrame'
TCT = 'short_message::TimeCodeType'
SMT = 'short_message::ShortMessageType'


def call(F, key, args, subst, st, hooks=None):
    """interpret `key` continuing from abstract state `st` (cloned)"""
    h = {}
    h.update(H.msg_hooks())
    h.update(H.fbu_hook())
    if hooks:
        h.update(hooks)
    I = Interp(F, abstract_methods=h)
    s2 = st.clone()
    s2.frames = []
    outs = I.run(key, args, subst, s2)
    return I, outs


def call_on(F, key, selfv, subst, st, extra=()):
    s2 = st.clone()
    s2.frames = []
    s2.root().locals['self'] = selfv
    return call(F, key, [Rf(0, 'self', ())] + list(extra), subst, s2)


def fresh_state(F, cons):
    I = Interp(F)
    st = I.new_state()
    st.cons.update(cons)
    return st


def bytes_tuple(status=H.STATUS, d1=H.D1, d2=H.D2):
    return Ag('()', 0, [Sc(status, H.U8), H.u7(d1), H.u7(d2)])


def method_key(F, trait, name, self_ty):
    hit = find_impl(Interp(F), trait, name, [self_ty])
    if hit:
        return hit
    tr = F.traits.get(trait)
    for it in (tr or {}).get('items', []):
        if it['name'] == name and it['has_default']:
            return it['key'], [self_ty]
    return None


def factory_types(F):
    """local types implementing ShortMessageFactory"""
    out = []
    for im in F.impls:
        if im.get('trait') == H.SMF and im['self']['k'] == 'adt':
            out.append((im['self'], im))
    return out


def from_bytes_clause(chk, F):
    cfg = F.cfg
    # overrides of factory defaults are not covered by the default-body analysis
    tr = F.traits.get(H.SMF, {'items': []})
    defaults = {it['name'] for it in tr['items'] if it['has_default']}
    fts = factory_types(F)
    chk.floor('factory_impls', 2, len(fts))
    for ty, im in fts:
        # (an overriding `from_bytes` is what the from-bytes obligations below interpret for that type)
        ov = [it['name'] for it in im['items'] if it['name'] in defaults and not (it['name'] == 'from_bytes' and chk.pid == 'C01')]
        chk.ob('%s/factory-overrides/%s/%s' % (chk.pid, cfg, ty['path'].split('::')[-1]), 'override inventory',
               'proved' if not ov else 'unproven', subject={'at': im['span']['at'], 'config': cfg},
               expected='no default method of ShortMessageFactory is overridden', found=ov,
               why='an overriding body is not covered by the analysis of the trait default' if ov else '', nontrivial=False)
    subjects = [('abstract', [H.param()])] + [(ty['path'].split('::')[-1], [ty]) for ty, im in fts]
    for label, sub in subjects:
        key = '%s/from-bytes/%s/%s' % (chk.pid, cfg, label)

        def ev(sub=sub, key=key, label=label):
            fk = H.SMF + '::from_bytes'
            sub2 = sub
            if label != 'abstract':
                from ..models import find_impl
                hit = find_impl(Interp(F), H.SMF, 'from_bytes', sub)
                if hit:
                    fk, sub2 = hit
            st = fresh_state(F, H.base_cons())
            I, outs = call(F, fk, [bytes_tuple()], sub2, st)
            okset, errset = VS.of([]), VS.of([])
            status, why = 'proved', ''
            for o in outs:
                v = vs_of(H.STATUS, o.st.cons)
                if o.kind != 'return' or not isinstance(o.value, Ag):
                    status, why = ('refuted' if o.kind == 'panic' else 'unproven'), '%s outcome for status in %r (%s)' % (o.kind, v, o.why)
                    continue
                if o.value.variant == 0:
                    okset = okset.join(v)
                    if label == 'abstract':
                        m = o.value.fields[0]
                        if not (isinstance(m, Ag) and m.path == H.FBU and H.values_equal(m.fields[0], bytes_tuple(), o.st.cons)):
                            status, why = 'refuted', 'bytes reaching from_bytes_unchecked are %r' % (m,)
                else:
                    errset = errset.join(v)
            if status == 'proved' and (okset != VS(0x80, 0xFF) or errset != VS(0, 0x7F)):
                status, why = 'refuted', 'Ok for status in %r, Err for status in %r' % (okset, errset)
            chk.ob(key, 'from_bytes outcome summary', status, subject=fn_subject(F, fk),
                   expected='Ok exactly for status 0x80..0xFF, Err for 0x00..0x7F, no panic',
                   found='Ok: %r, Err: %r' % (okset, errset), why=why)
        guarded(chk, key, 'from_bytes outcome summary', ev)
    # TryFrom<(u8, U7, U7)> for RawShortMessage
    key = '%s/from-bytes/%s/TryFrom-tuple-for-Raw' % (chk.pid, cfg)

    def ev2():
        tup_ty = {'k': 'tuple', 'tys': [H.U8, H.adt_ty(H.U7P), H.adt_ty(H.U7P)]}
        hit = find_impl(Interp(F), 'core::convert::TryFrom', 'try_from', [H.adt_ty(H.RAW), tup_ty])
        if not hit:
            return chk.ob(key, 'from_bytes outcome summary', 'unproven', why='TryFrom<(u8,U7,U7)> for RawShortMessage not found')
        st = fresh_state(F, H.base_cons())
        I, outs = call(F, hit[0], [bytes_tuple()], hit[1], st)
        okset, errset = VS.of([]), VS.of([])
        status, why = 'proved', ''
        for o in outs:
            v = vs_of(H.STATUS, o.st.cons)
            if o.kind != 'return':
                status, why = 'unproven', o.kind
            elif o.value.variant == 0:
                okset = okset.join(v)
                if not H.values_equal(o.value.fields[0], Ag(H.RAW, 0, [bytes_tuple()]), o.st.cons):
                    status, why = 'refuted', 'Ok payload %r' % (o.value.fields[0],)
            else:
                errset = errset.join(v)
        if status == 'proved' and (okset != VS(0x80, 0xFF) or errset != VS(0, 0x7F)):
            status, why = 'refuted', 'Ok for %r, Err for %r' % (okset, errset)
        chk.ob(key, 'from_bytes outcome summary', status, subject=fn_subject(F, hit[0]), expected='same as from_bytes', found='Ok: %r' % okset, why=why)
    guarded(chk, key, 'from_bytes outcome summary', ev2)


def getters_of(F, selfv, self_ty, st):
    """-> [(state, (status, d1, d2) scalar terms)] over all paths, or raises"""
    res = [(st, [])]
    for name in ('status_byte', 'data_byte_1', 'data_byte_2'):
        mk = method_key(F, H.SM, name, self_ty)
        nxt = []
        for s, acc in res:
            I, outs = call_on(F, mk[0], selfv, mk[1], s)
            for o in outs:
                if o.kind != 'return':
                    raise RuntimeError('%s outcome in %s: %s' % (o.kind, name, o.why))
                sc = H.scalar_of(o.value)
                if sc is None:
                    raise RuntimeError('%s returned %r' % (name, o.value))
                nxt.append((o.st, acc + [sc.term]))
        res = nxt
    return res


def raw_clause(chk, F):
    key = '%s/raw-bytes/%s' % (chk.pid, F.cfg)

    def ev():
        mk = method_key(F, H.SMF, 'from_bytes_unchecked', H.adt_ty(H.RAW))
        st = fresh_state(F, H.base_cons())
        I, outs = call(F, mk[0], [bytes_tuple()], mk[1], st)
        status, why, found = 'proved', '', []
        for o in outs:
            if o.kind != 'return':
                status, why = 'unproven', o.kind
                continue
            for s, (a, b, c) in getters_of(F, o.value, H.adt_ty(H.RAW), o.st):
                found.append((T.tstr(a), T.tstr(b), T.tstr(c)))
                if (a, b, c) != (H.STATUS, H.D1, H.D2):
                    status, why = 'refuted', 'RawShortMessage built from (status, d1, d2) returns (%s, %s, %s)' % (T.tstr(a), T.tstr(b), T.tstr(c))
            hit = find_impl(Interp(F), 'core::convert::From', 'from', [{'k': 'tuple', 'tys': [H.U8, H.adt_ty(H.U7P), H.adt_ty(H.U7P)]}, H.adt_ty(H.RAW)])
            if hit:
                I2, outs2 = call(F, hit[0], [o.value], hit[1], o.st)
                for o2 in outs2:
                    if o2.kind != 'return' or not H.values_equal(o2.value, bytes_tuple(), o2.st.cons):
                        status, why = 'refuted', 'Into<(u8,U7,U7)> yields %r' % (o2.value,)
        chk.ob(key, 'token identity of stored bytes', status, subject=fn_subject(F, mk[0]),
               expected='(status, d1, d2) returned verbatim', found=found[:2], why=why)
    guarded(chk, key, 'token identity of stored bytes', ev)


def canonical(tname, cons):
    """oracle: the bytes a structured message reports for input (status, d1, d2) of type tname"""
    t = midi.TYPE[tname]
    d1 = H.D1 if t[5] else C(0)
    d2 = H.D2 if t[6] else C(0)
    return H.STATUS, d1, d2


def structured_clause(chk, F, tier):
    cfg = F.cfg
    sty = H.adt_ty(H.STRUCT)
    mk = method_key(F, H.SMF, 'from_bytes_unchecked', sty)
    seen_types = set()
    for cname, tname, cons in classes(tier):
        if cname.endswith('d2=0..0') or cname.endswith('d1=120..127'):
            continue       # the C02 splits are irrelevant here
        cname = cname.split('.d')[0]
        seen_types.add(tname)
        cons = dict(cons)
        cons[H.D1] = VS(0, 127)
        cons[H.D2] = VS(0, 127)
        key = '%s/structured-bytes/%s/%s' % (chk.pid, cfg, cname)

        def ev(cname=cname, tname=tname, cons=cons, key=key):
            st = fresh_state(F, cons)
            I, outs = call(F, mk[0], [bytes_tuple()], mk[1], st)
            status, why, found = 'proved', '', []
            for o in outs:
                if o.kind != 'return':
                    status, why = ('refuted' if o.kind == 'panic' else 'unproven'), '%s outcome (%s)' % (o.kind, o.why)
                    continue
                for s, (a, b, c) in getters_of(F, o.value, sty, o.st):
                    ws, w1, w2 = canonical(tname, s.cons)
                    ok = H.same(a, ws, s.cons) and H.same(c, w2, s.cons)
                    if tname == 'TimeCodeQuarterFrame':
                        kinds = vs_of(T.mk_op('Shr', H.D1, C(4), None, s.cons), s.cons)
                        bw = T.bits_of(H.D1, s.cons, 8)
                        if kinds.single() and kinds.lo == 7:
                            bw = list(bw)
                            bw[3] = 0          # reserved bit of the 'last' quarter frame
                        ok = ok and T.bits_of(b, s.cons, 8) == bw
                    else:
                        ok = ok and H.same(b, w1, s.cons)
                    if len(found) < 3:
                        found.append('(%s | %s | %s)' % tuple(T.bits_str(T.bits_of(x, s.cons, 8)) for x in (a, b, c)))
                    if not ok:
                        status = 'refuted'
                        why = 'for d1 in %r the structured message reports bytes (%s | %s | %s)' % (
                            vs_of(H.D1, s.cons), T.bits_str(T.bits_of(a, s.cons, 8)), T.bits_str(T.bits_of(b, s.cons, 8)), T.bits_str(T.bits_of(c, s.cons, 8)))
                    # idempotence: structuring the reported bytes again gives the same value
                    I3, outs3 = call(F, mk[0], [Ag('()', 0, [Sc(a, H.U8), H.u7(b), H.u7(c)])], mk[1], s)
                    for o3 in outs3:
                        if o3.kind != 'return' or not H.values_equal(o3.value, o.value, o3.st.cons):
                            status, why = 'refuted', 'raw -> structured -> raw -> structured changes the value: %r vs %r' % (o.value, o3.value)
            chk.ob(key, 'canonical bytes per status class', status, subject=fn_subject(F, mk[0]),
                   expected='status unchanged; data bytes unchanged where the type carries them, 0 otherwise', found=found, why=why)
        guarded(chk, key, 'canonical bytes per status class', ev)
    chk.floor('status_classes', 23, len(seen_types))


def structured_values(F):
    """all shapes of StructuredShortMessage with token fields: [(label, value, cons)]"""
    a = F.adts[H.STRUCT]
    out = []
    for vi, v in enumerate(a['variants']):
        shapes = [([], {})]
        for f in v['fields']:
            ty = f['ty']
            new = []
            for fs, cons in shapes:
                for fv, c2 in field_shapes(F, ty, v['name'] + '.' + f['name']):
                    cc = dict(cons)
                    cc.update(c2)
                    new.append((fs + [fv], cc))
            shapes = new
        for i, (fs, cons) in enumerate(shapes):
            out.append((v['name'] + ('#%d' % i if len(shapes) > 1 else ''), Ag(H.STRUCT, vi, fs), cons))
    return out


def field_shapes(F, ty, hint):
    if ty['k'] == 'bool':
        tok = T.T(hint, 'bool')
        return [(Sc(tok, ty), {})]
    if ty['k'] == 'int':
        return [(Sc(T.T(hint, ty['name']), ty), {})]
    if ty['k'] == 'adt' and ty['path'] in midi.PATH_NEWTYPE:
        short = midi.PATH_NEWTYPE[ty['path']]
        tok = T.T(hint, midi.NEWTYPE_REPR[short])
        return [(H.nt(short, tok), {tok: VS(0, midi.NEWTYPE_MAX[short])})]
    a = F.adts.get(ty.get('path')) if ty['k'] == 'adt' else None
    if a is not None and a['kind'] == 'enum':
        out = []
        for vi, v in enumerate(a['variants']):
            shapes = [([], {})]
            for f in v['fields']:
                new = []
                for fs, cons in shapes:
                    for fv, c2 in field_shapes(F, f['ty'], hint + '.' + f['name']):
                        cc = dict(cons)
                        cc.update(c2)
                        new.append((fs + [fv], cc))
                shapes = new
            for fs, cons in shapes:
                out.append((Ag(ty['path'], vi, fs), cons))
        return out
    raise RuntimeError('unsupported field type in StructuredShortMessage: %r' % (ty,))


def value_roundtrip_clause(chk, F):
    cfg = F.cfg
    sty, rty = H.adt_ty(H.STRUCT), H.adt_ty(H.RAW)
    vals = structured_values(F)
    a = F.adts[H.STRUCT]
    chk.floor('structured_variants', 23, len(a['variants']))
    chk.floor('structured_value_shapes', 33, len(vals))
    fbu = method_key(F, H.SMF, 'from_bytes_unchecked', sty)
    to_bytes = method_key(F, H.SM, 'to_bytes', sty)
    to_other = method_key(F, H.SM, 'to_other', sty)
    to_struct_s = method_key(F, H.SM, 'to_structured', sty)
    to_struct_r = method_key(F, H.SM, 'to_structured', rty)
    to_struct_default = H.SM + '::to_structured'
    for label, sv, cons in vals:
        key = '%s/value-roundtrip/%s/%s' % (chk.pid, cfg, label)

        def ev(label=label, sv=sv, cons=cons, key=key):
            st = fresh_state(F, cons)
            status, why = 'proved', ''
            n = 0
            # (1) value -> bytes -> value
            I, outs = call_on(F, to_bytes[0], sv, to_bytes[1], st)
            for o in outs:
                if o.kind != 'return':
                    status, why = ('refuted' if o.kind == 'panic' else 'unproven'), 'to_bytes: %s (%s)' % (o.kind, o.why)
                    continue
                I2, outs2 = call(F, fbu[0], [o.value], fbu[1], o.st)
                for o2 in outs2:
                    n += 1
                    if o2.kind != 'return':
                        status, why = ('refuted' if o2.kind == 'panic' else 'unproven'), 'from_bytes_unchecked(to_bytes(v)): %s (%s)' % (o2.kind, o2.why)
                    elif not H.values_equal(o2.value, sv, o2.st.cons):
                        status, why = 'refuted', 'to bytes and back changes %r into %r (bytes %r)' % (sv, o2.value, o.value)
            # (2) value -> RawShortMessage -> value
            I, outs = call_on(F, to_other[0], sv, [sty, rty] if len(to_other[1]) < 2 else [sty, rty], st)
            for o in outs:
                if o.kind != 'return':
                    status, why = 'unproven', 'to_other::<Raw>: %s' % o.kind
                    continue
                I2, outs2 = call_on(F, to_struct_r[0], o.value, to_struct_r[1], o.st)
                for o2 in outs2:
                    n += 1
                    if o2.kind != 'return' or not H.values_equal(o2.value, sv, o2.st.cons):
                        status, why = 'refuted', 'to Raw and back gives %r' % (o2.value,)
            # (3) to_structured (override) and the trait default agree with the identity
            for k2, sub2, what in ((to_struct_s[0], to_struct_s[1], 'to_structured()'), (to_struct_default, [sty], 'default to_structured')):
                I, outs = call_on(F, k2, sv, sub2, st)
                for o in outs:
                    n += 1
                    if o.kind != 'return' or not H.values_equal(o.value, sv, o.st.cons):
                        status, why = 'refuted', '%s gives %r' % (what, o.value)
            chk.ob(key, 'value round trip', status, subject=fn_subject(F, fbu[0]), expected='identity on %r' % (sv,),
                   found='%d compositions compared' % n, why=why)
        guarded(chk, key, 'value round trip', ev)


def codec_clause(chk, F):
    cfg = F.cfg
    u7ty, tqty = H.adt_ty(H.U7P), H.adt_ty(TQ)
    enc = find_impl(Interp(F), 'core::convert::From', 'from', [u7ty, tqty])
    dec = find_impl(Interp(F), 'core::convert::From', 'from', [tqty, u7ty])
    shapes = field_shapes(F, tqty, 'frame')
    chk.floor('quarter_frame_shapes', 11, len(shapes))
    for i, (fv, cons) in enumerate(shapes):
        label = '%s%s' % (H.variant_name(F, fv), '.%s' % H.variant_name(F, fv.fields[1]) if len(fv.fields) == 2 and isinstance(fv.fields[1], Ag) else '')
        key = '%s/quarter-frame-codec/%s/%s' % (chk.pid, cfg, label)

        def ev(fv=fv, cons=cons, key=key):
            if not enc or not dec:
                return chk.ob(key, 'codec round trip', 'unproven', why='From impls between TimeCodeQuarterFrame and U7 not found')
            st = fresh_state(F, cons)
            I, outs = call(F, enc[0], [fv], enc[1], st)
            status, why = 'proved', ''
            for o in outs:
                if o.kind != 'return':
                    status, why = ('refuted' if o.kind == 'panic' else 'unproven'), 'encode: %s (%s)' % (o.kind, o.why)
                    continue
                sc = H.scalar_of(o.value)
                if sc is None or not vs_of(sc.term, o.st.cons).subset(VS(0, 127)):
                    status, why = 'refuted', 'encoded byte %r not 7-bit' % (o.value,)
                I2, outs2 = call(F, dec[0], [o.value], dec[1], o.st)
                for o2 in outs2:
                    if o2.kind != 'return' or not H.values_equal(o2.value, fv, o2.st.cons):
                        status, why = 'refuted', 'decode(encode(%r)) = %r (%s)' % (fv, o2.value, o2.kind)
            chk.ob(key, 'codec round trip', status, subject=fn_subject(F, enc[0]), expected='decode(encode(frame)) == frame', found=repr(fv), why=why)
        guarded(chk, key, 'codec round trip', ev)
    # byte -> frame -> byte: identity except the reserved bit 3 in kind 7
    key = '%s/quarter-frame-codec/%s/byte-frame-byte' % (chk.pid, cfg)

    def ev2():
        st = fresh_state(F, {H.D1: VS(0, 127)})
        I, outs = call(F, dec[0], [H.u7(H.D1)], dec[1], st)
        status, why, n = 'proved', '', 0
        for o in outs:
            if o.kind != 'return':
                status, why = ('refuted' if o.kind == 'panic' else 'unproven'), 'decode: %s for d1 in %r (%s)' % (o.kind, vs_of(H.D1, o.st.cons), o.why)
                continue
            I2, outs2 = call(F, enc[0], [o.value], enc[1], o.st)
            for o2 in outs2:
                n += 1
                sc = H.scalar_of(o2.value) if o2.kind == 'return' else None
                bw = list(T.bits_of(H.D1, o2.st.cons, 8))
                kinds = vs_of(T.mk_op('Shr', H.D1, C(4), None, o2.st.cons), o2.st.cons)
                if kinds.single() and kinds.lo == 7:
                    bw[3] = 0
                if sc is None or T.bits_of(sc.term, o2.st.cons, 8) != bw:
                    status, why = 'refuted', 'for d1 in %r: encode(decode(d1)) = %s' % (vs_of(H.D1, o2.st.cons), H.describe(o2.value, o2.st.cons) if sc else o2.kind)
        chk.ob(key, 'codec round trip', status, subject=fn_subject(F, dec[0]),
               expected='identity except bit 3 cleared for kind 7', found='%d paths' % n, why=why)
    guarded(chk, key, 'codec round trip', ev2)
    # ShortMessageType -> u8 -> ShortMessageType
    a = F.adts.get(SMT)
    into = find_impl(Interp(F), 'core::convert::From', 'from', [H.U8, H.adt_ty(SMT)])
    back = '<%s as core::convert::TryFrom<u8>>::try_from' % SMT
    for i, v in enumerate(a['variants'] if a else []):
        key = '%s/type-codec/%s/%s' % (chk.pid, cfg, v['name'])

        def ev3(i=i, key=key):
            st = fresh_state(F, {})
            I, outs = call(F, into[0], [Ag(SMT, i, ())], into[1], st)
            status, why = 'proved', ''
            for o in outs:
                I2, outs2 = call(F, back, [o.value], [], o.st)
                for o2 in outs2:
                    ok = o2.kind == 'return' and isinstance(o2.value, Ag) and o2.value.variant == 0 and \
                        H.values_equal(o2.value.fields[0], Ag(SMT, i, ()), o2.st.cons)
                    if not ok:
                        status, why = 'refuted', 'try_from(u8::from(type)) = %r' % (o2.value,)
            chk.ob(key, 'codec round trip', status, subject=fn_subject(F, back), expected='Ok(same type)', found='', why=why)
        guarded(chk, key, 'codec round trip', ev3)


def run(tier, cmd):
    chk = Check(PID, tier, 'other',
                'outcome summaries and compositions of from_bytes / from_bytes_unchecked / the byte getters / to_other / '
                'to_structured, interpreted abstractly per status class and per StructuredShortMessage value shape; equality by '
                'token identity and bit provenance against the MIDI 1.0 oracle of which bytes each type carries',
                cmd, trusted_base=TRUSTED,
                assumptions=['data bytes are 7-bit and newtype fields are in range (C04)'],
                explanation='Decides all clauses of C01 for RawShortMessage, StructuredShortMessage and an abstract factory that inherits the '
                            'trait defaults: from_bytes is Ok exactly for status >= 0x80; Raw returns its bytes verbatim; Structured returns them '
                            'with only information-free parts zeroed (per status class; quarter frames per kind); every StructuredShortMessage '
                            'value survives bytes / Raw / to_structured round trips unchanged; raw->structured->raw is idempotent; the quarter-frame '
                            'and message-type codecs round-trip on their own. Not decided: a third-party factory\'s own from_bytes_unchecked '
                            '(outside the repository).')
    Fs = load_configs(chk, ['K1', 'K2'], required=('K1',))
    for cfg, F in sorted(Fs.items()):
        guarded(chk, '%s/from-bytes/%s' % (PID, cfg), 'from_bytes outcome summary', lambda F=F: from_bytes_clause(chk, F))
        raw_clause(chk, F)
        guarded(chk, '%s/structured-bytes/%s' % (PID, cfg), 'canonical bytes per status class', lambda F=F: structured_clause(chk, F, tier))
        guarded(chk, '%s/value-roundtrip/%s' % (PID, cfg), 'value round trip', lambda F=F: value_roundtrip_clause(chk, F))
        guarded(chk, '%s/codec/%s' % (PID, cfg), 'codec round trip', lambda F=F: codec_clause(chk, F))
    return chk.finish()
