"""C05 — integer conversions, parsing, ordering and formatting are numerically faithful.

Decided clauses:
  cast rule      every `as` cast reached in a conversion impl has an operand whose proven value set
                 lies inside the target type (=> the cast preserves the mathematical value)
  value identity outcome summary of every From / TryFrom impl: the result is the source value
  derives        Eq/Ord/Hash/Default are the builtin derives on a single unsigned field (=> they
                 agree with the numeric value); MIN/MAX/default() evaluate to 0 / max / 0
  Display        fmt delegates exactly once to the primitive's Display with the stored value
  FromStr        delegates exactly once to the primitive parser with the unmodified input, maps the
                 error, applies the range guard and nothing else
Declined: the numeral grammar accepted by core's parser and the text core's Display prints (trusted).
"""
from .. import audit, scan, terms as T
from ..terms import VS, vs_of
from ..interp import Sc, Ag, Un, val_key
from ..entry import run_fn
from ..models import builtin_derive
from ..report import Check, site_subject, fn_subject
from ..spec import midi
from .common import load_configs, guarded, short_ty, TRUSTED
from .c04 import conversion_impls, tyname, type_range, NT

PID = 'C05'
FLOORS = {'conversion_impls_K1': 132, 'casts_in_conversions_K1': 20, 'derive_impls_per_type': 6}


def unwrap_nt(v):
    if isinstance(v, Ag) and v.path in midi.PATH_NEWTYPE and len(v.fields) == 1:
        return v.fields[0]
    return v


def conversions(chk, F, A):
    cfg = F.cfg
    impls = conversion_impls(F)
    if cfg == 'K1':
        chk.floor('conversion_impls_K1', FLOORS['conversion_impls_K1'], len(impls))
    ncasts = 0
    for tr, src, tgt, im in impls:
        name = 'from' if tr == 'From' else 'try_from'
        fk = [it['key'] for it in im['items'] if it['name'] == name]
        label = '%s<%s> for %s' % (tr, tyname(src), tyname(tgt))
        if not fk:
            chk.ob('%s/conv/%s/%s' % (PID, cfg, label), 'conversion value identity', 'unproven', why='item %s missing' % name)
            continue
        fk = fk[0]
        # ---- cast rule on the audit's observations for this body
        casts = [(site, obs) for site, obs in A.cast.items() if site[0] == fk]
        static_casts = []
        for bi, blk in enumerate(F.fns[fk]['body']['blocks']):
            if blk['cleanup']:
                continue
            for si, s in enumerate(blk['stmts']):
                if s['k'] == 'assign' and s['rv']['k'] == 'cast' and not s['rv']['kind'].startswith('PointerCoercion'):
                    static_casts.append((fk, bi, si))
        ncasts += len(static_casts)
        status, why, found = 'proved', '', []
        for site in static_casts:
            obs = A.cast.get(site)
            at = site_subject(F, site).get('at')
            if not obs:
                status, why = 'unproven', 'cast at %s not reached by any analysed path' % at
                continue
            for (v, frm, to, kind, fnk, stack) in obs:
                if not kind.startswith('IntToInt') or v is None:
                    if kind.startswith('IntToFloat') and v is not None and to in ('f32', 'f64') and \
                            v.subset(VS(-(1 << (24 if to == 'f32' else 53)), 1 << (24 if to == 'f32' else 53))):
                        continue
                    status, why = 'unproven', 'cast kind %s (%s -> %s) at %s is not covered by the cast rule' % (kind, frm, to, at)
                    continue
                if len(found) < 3:
                    found.append('%s as %s with operand in %r' % (frm, to, v))
                if not v.subset(T.ty_vs(to)):
                    status = 'refuted'
                    why = '`as %s` at %s with operand in %r: values outside %s are changed by the cast' % (to, at, v, to)
        sub = {'at': im['span']['callsite'], 'fn': fk, 'config': cfg}
        chk.ob('%s/cast/%s/%s' % (PID, cfg, fk), 'cast rule', status, subject=sub,
               expected='operand value set inside the target type at every `as`', found=found, why=why,
               nontrivial=bool(static_casts))

        # ---- value identity
        key = '%s/conv/%s/%s' % (PID, cfg, label)

        def ev(fk=fk, key=key, tr=tr, src=src, tgt=tgt, sub=sub, label=label):
            rs, rt = type_range(src), type_range(tgt)
            if rs is None or rt is None:
                return     # non-integer partner (quarter frame etc.): C01 covers those codecs
            I, outs, args = run_fn(F, fk)
            a = unwrap_nt(args[0])
            tok = a.term
            status, why, found = 'proved', '', []
            accept = VS.of([])
            for o in outs:
                v = vs_of(tok, o.st.cons)
                if o.kind != 'return':
                    status, why = ('refuted' if o.kind == 'panic' else 'unproven'), '%s outcome for source in %r: %s' % (o.kind, v, o.why)
                    continue
                r = o.value
                if tr == 'TryFrom':
                    if not isinstance(r, Ag) or r.path != 'core::result::Result':
                        status, why = 'unproven', 'result is %r' % (r,)
                        continue
                    if r.variant == 1:
                        found.append('Err for %r' % v)
                        if not v.meet(VS(*rt)).empty():
                            status, why = 'refuted', 'rejects source value in %r although it is within the target range' % (v.meet(VS(*rt)),)
                        continue
                    r = r.fields[0]
                r = unwrap_nt(r)
                accept = accept.join(v)
                found.append('value preserved for %r' % v)
                if not isinstance(r, Sc) or not (r.term == tok or T.same_value(r.term, tok, o.st.cons, 64)):
                    status, why = 'refuted', 'result %r is not the source value (source in %r)' % (r, v)
                elif not v.subset(VS(*rt)):
                    status, why = 'refuted', 'accepts source value in %r outside the target range %s' % (v, list(rt))
            src_rng = VS(*rs) if src['k'] != 'adt' else VS(*rs)
            want = src_rng.meet(VS(*rt))
            if status == 'proved' and not (want.subset(accept) if want.s is not None or accept.s is None else accept.lo <= want.lo and want.hi <= accept.hi):
                status, why = 'refuted', 'does not accept every source value within the target range: accepts %r, expected %r' % (accept, want)
            chk.ob(key, 'conversion value identity', status, subject=sub,
                   expected='result == source value exactly for sources within %s' % (list(rt),), found=found[:4], why=why)
        guarded(chk, key, 'conversion value identity', ev)
    if cfg == 'K1':
        chk.floor('casts_in_conversions_K1', FLOORS['casts_in_conversions_K1'], ncasts)


def derives(chk, F):
    cfg = F.cfg
    for short, path in sorted(NT.items()):
        a = F.adts.get(path)
        if a is None:
            chk.ob('%s/derive/%s/%s' % (PID, cfg, short), 'derived comparison', 'unproven', why='type missing', nontrivial=False)
            continue
        fs = a['variants'][0]['fields']
        unsigned = len(fs) == 1 and fs[0]['ty']['k'] == 'int' and fs[0]['ty']['name'][0] == 'u'
        n = 0
        for tr in ('core::cmp::PartialEq', 'core::cmp::Eq', 'core::cmp::PartialOrd', 'core::cmp::Ord', 'core::hash::Hash', 'core::default::Default'):
            ims = [im for im in F.impls if im.get('trait') == tr and im['self']['k'] == 'adt' and im['self']['path'] == path]
            # comparisons against other types (PartialEq<u8> ...) would be additional impls with trait args
            ok = len(ims) == 1 and builtin_derive(ims[0]) and unsigned
            n += int(ok)
            chk.ob('%s/derive/%s/%s/%s' % (PID, cfg, short, tr.split('::')[-1]), 'derived comparison',
                   'proved' if ok else 'unproven', subject={'at': ims[0]['span']['callsite'] if ims else a['span']['callsite'], 'config': cfg},
                   expected='exactly one impl, generated by the builtin derive, on a single unsigned field',
                   found=[(im['span']['macros'][:1], im['automatically_derived']) for im in ims],
                   why='' if ok else 'a hand-written or foreign-derive impl is not covered by the structural rule', nontrivial=False)
        chk.floors['derive_impls/%s/%s' % (cfg, short)] = [FLOORS['derive_impls_per_type'], n]
        mx = midi.NEWTYPE_MAX[short]
        for cname, want in (('MIN', 0), ('MAX', mx)):
            key = '%s/const/%s/%s::%s' % (PID, cfg, short, cname)

            def ev(cname=cname, want=want, key=key, path=path):
                fk = '%s::%s' % (path, cname)
                if fk not in F.fns:
                    return chk.ob(key, 'constant value', 'unproven', why='constant not found')
                I, outs, args = run_fn(F, fk)
                r = unwrap_nt(outs[0].value) if len(outs) == 1 and outs[0].kind == 'return' else None
                ok = isinstance(r, Sc) and r.term == T.C(want)
                chk.ob(key, 'constant value', 'proved' if ok else 'refuted', subject=fn_subject(F, fk), expected=want, found=r)
            guarded(chk, key, 'constant value', ev)
        key = '%s/default/%s/%s' % (PID, cfg, short)

        def evd(key=key, path=path):
            fk = '<%s as core::default::Default>::default' % path
            if fk not in F.fns:
                return chk.ob(key, 'constant value', 'unproven', why='Default impl not found')
            I, outs, args = run_fn(F, fk)
            r = unwrap_nt(outs[0].value) if len(outs) == 1 and outs[0].kind == 'return' else None
            ok = isinstance(r, Sc) and r.term == T.C(0)
            chk.ob(key, 'constant value', 'proved' if ok else 'refuted', subject=fn_subject(F, fk), expected=0, found=r)
        guarded(chk, key, 'constant value', evd)


def display_fromstr(chk, F):
    cfg = F.cfg
    for short, path in sorted(NT.items()):
        rep = midi.NEWTYPE_REPR[short]
        key = '%s/display/%s/%s' % (PID, cfg, short)

        def evd(key=key, path=path, rep=rep):
            fk = '<%s as core::fmt::Display>::fmt' % path
            if fk not in F.fns:
                return chk.ob(key, 'Display delegation', 'unproven', why='Display impl not found')
            I, outs, args = run_fn(F, fk)
            selfv = I.deref_all(outs[0].st, args[0]) if outs else None
            tok = unwrap_nt(selfv)
            status, why = 'proved', ''
            for o in outs:
                calls = [e for e in o.st.events if e[0] == 'fmt-call']
                others = [e for e in o.st.events if e[0] == 'fmt-other']
                want = 'core::fmt::num::imp::<impl core::fmt::Display for %s>::fmt' % rep
                if o.kind != 'return' or len(calls) != 1 or others:
                    status, why = 'unproven', 'expected a single delegation to %s, saw %r %r (%s)' % (want, [c[2] for c in calls], others, o.kind)
                    continue
                c = calls[0]
                if c[2] != want:
                    status, why = 'refuted', 'formats through %s instead of the primitive Display' % c[2]
                elif not isinstance(tok, Sc) or c[3][0] != val_key(tok):
                    status, why = 'refuted', 'the formatted operand %r is not the stored value' % (c[3][0],)
                elif not (isinstance(o.value, Sc) and o.value.term == c[4]):
                    status, why = 'refuted', 'the result of the primitive fmt is not what is returned'
            chk.ob(key, 'Display delegation', status, subject=fn_subject(F, fk),
                   expected='fmt(self, f) == <%s as Display>::fmt(&self.0, f)' % rep, found=[o.kind for o in outs], why=why)
        guarded(chk, key, 'Display delegation', evd)

        key = '%s/fromstr/%s/%s' % (PID, cfg, short)

        def evf(key=key, path=path, rep=rep, short=short):
            fk = '<%s as core::str::traits::FromStr>::from_str' % path
            if fk not in F.fns:
                return chk.ob(key, 'FromStr delegation', 'unproven', why='FromStr impl not found')
            I, outs, args = run_fn(F, fk)
            status, why = 'proved', ''
            src_key = val_key(args[0])
            for o in outs:
                ps = [e for e in o.st.events if e[0] == 'from_str']
                if o.kind != 'return':
                    status, why = 'refuted' if o.kind == 'panic' else 'unproven', '%s outcome (%s)' % (o.kind, o.why)
                elif len(ps) != 1 or ps[0][1] != rep:
                    status, why = 'unproven', 'expected exactly one call of <%s as FromStr>::from_str, saw %r' % (rep, ps)
                elif ps[0][2] != src_key:
                    status, why = 'refuted', 'the string handed to the primitive parser is not the unmodified input'
                elif o.st.notes:
                    status, why = 'unproven', 'unmodelled callee on the path: %s' % o.st.notes[:2]
            chk.ob(key, 'FromStr delegation', status, subject=fn_subject(F, fk),
                   expected='one call of <%s as FromStr>::from_str(source), then only the range guard' % rep,
                   found=['%s %r' % (o.kind, o.value) for o in outs][:4], why=why)
        guarded(chk, key, 'FromStr delegation', evf)
        # the accept/reject sets of from_str relative to the parsed number are C04 R4.4 obligations; repeated here
        from .c04 import r44_exactness  # noqa


def run(tier, cmd):
    chk = Check(PID, tier, 'other',
                'cast rule over abstract-interpretation value sets at every `as` of the conversion impls; outcome summaries '
                '(result term == source token) of all From/TryFrom impls; builtin-derive audit for Eq/Ord/Hash/Default; '
                'evaluation of MIN/MAX/default(); delegation shape of Display and FromStr',
                cmd, trusted_base=TRUSTED + ["core's integer parser (accepted numeral grammar) and core's Display for u8/u16 (printed text)"],
                assumptions=['newtype values entering a conversion satisfy their range invariant (C04)'],
                explanation='Decides: every conversion into/out of the six newtypes accepts exactly the in-range sources and preserves the '
                            'mathematical value (all impls, all analysed configurations); comparison/hash/default agree with the numeric value '
                            'because they are the builtin derives on one unsigned field; MIN/MAX/default constants; Display and FromStr '
                            'delegate to the primitive implementation with the stored value / unmodified input plus only the range guard. '
                            'Not decided (outside the crate source, trusted): which strings core\'s parser accepts (digits with optional +) '
                            'and the decimal text core prints, hence print-then-parse identity is decided only modulo core.')
    cfgs = ['K1', 'K2'] + (['K3', 'K4'] if tier == 'thorough' else [])
    Fs = load_configs(chk, cfgs, required=('K1', 'K2'))
    for cfg, F in sorted(Fs.items()):
        A = guarded(chk, '%s/audit/%s' % (PID, cfg), 'cast rule', lambda F=F: audit.get(F))
        if A is not None:
            guarded(chk, '%s/conversions/%s' % (PID, cfg), 'cast rule', lambda F=F, A=A: conversions(chk, F, A))
            chk.extra.setdefault('functions_interpreted', {})[cfg] = len(A.fns_entered)
        guarded(chk, '%s/derives/%s' % (PID, cfg), 'derived comparison', lambda F=F: derives(chk, F))
        guarded(chk, '%s/display-fromstr/%s' % (PID, cfg), 'Display delegation', lambda F=F: display_fromstr(chk, F))
    return chk.finish()
