"""C05 — integer conversions, parsing, ordering and formatting are numerically faithful.

Decided clauses:
  cast rule      every `as` cast reached in a conversion impl has an operand whose proven value set
                 lies inside the target type (=> the cast preserves the mathematical value)
  value identity outcome summary of every From / TryFrom impl: the result is the source value
  derives        Eq/Ord/Hash/Default are the builtin derives on a single unsigned field (=> they
                 agree with the numeric value); MIN/MAX/default() evaluate to 0 / max / 0
  Display        fmt delegates exactly once to the primitive's Display with the stored value
  FromStr        delegates exactly once to the primitive parser with the unmodified input, maps the
                 error, applies the range guard and nothing else
Declined: the numeral grammar accepted by core's parser and the text core's Display prints (trusted).
"""
from .. import audit, scan, terms as T
from ..terms import VS, vs_of
from ..interp import Sc, Ag, Un, val_key
from ..entry import run_fn
from ..models import builtin_derive
from ..report import Check, site_subject, fn_subject
from ..spec import midi
from .common import load_configs, guarded, short_ty, TRUSTED
from .c04 import conversion_impls, tyname, type_range, NT

PID = 'C05'
FLOORS = {'conversion_impls_K1': 132, 'casts_in_conversions_K1': 20, 'derive_impls_per_type': 6}


def unwrap_nt(v):
    if isinstance(v, Ag) and v.path in midi.PATH_NEWTYPE and len(v.fields) == 1:
        return v.fields[0]
    return v


def conversions(chk, F, A):
    cfg = F.cfg
    impls = conversion_impls(F)
    if cfg == 'K1':
        chk.floor('conversion_impls_K1', FLOORS['conversion_impls_K1'], len(impls))
    ncasts = 0
    for tr, src, tgt, im in impls:
        name = 'from' if tr == 'From' else 'try_from'
        fk = [it['key'] for it in im['items'] if it['name'] == name]
        label = '%s<%s> for %s' % (tr, tyname(src), tyname(tgt))
        if not fk:
            chk.ob('%s/conv/%s/%s' % (PID, cfg, label), 'conversion value identity', 'unproven', why='item %s missing' % name)
            continue
        fk = fk[0]
        # ---- cast rule on the audit's observations for this body
        casts = [(site, obs) for site, obs in A.cast.items() if site[0] == fk]
        static_casts = []
        for bi, blk in enumerate(F.fns[fk]['body']['blocks']):
            if blk['cleanup']:
                continue
            for si, s in enumerate(blk['stmts']):
                if s['k'] == 'assign' and s['rv']['k'] == 'cast' and not s['rv']['kind'].startswith('PointerCoercion'):
                    static_casts.append((fk, bi, si))
        ncasts += len(static_casts)
        status, why, found = 'proved', '', []
        for site in static_casts:
            obs = A.cast.get(site)
            at = site_subject(F, site).get('at')
            if not obs:
                status, why = 'unproven', 'cast at %s not reached by any analysed path' % at
                continue
            for (v, frm, to, kind, fnk, stack) in obs:
                if not kind.startswith('IntToInt') or v is None:
                    if kind.startswith('IntToFloat') and v is not None and to in ('f32', 'f64') and \
                            v.subset(VS(-(1 << (24 if to == 'f32' else 53)), 1 << (24 if to == 'f32' else 53))):
                        continue
                    status, why = 'unproven', 'cast kind %s (%s -> %s) at %s is not covered by the cast rule' % (kind, frm, to, at)
                    continue
                if len(found) < 3:
                    found.append('%s as %s with operand in %r' % (frm, to, v))
                if not v.subset(T.ty_vs(to)):
                    status = 'refuted'
                    why = '`as %s` at %s with operand in %r: values outside %s are changed by the cast' % (to, at, v, to)
        sub = {'at': im['span']['callsite'], 'fn': fk, 'config': cfg}
        cast_verdict = (status, why, found, bool(static_casts))

        # ---- value identity
        key = '%s/conv/%s/%s' % (PID, cfg, label)

        def ev(fk=fk, key=key, tr=tr, src=src, tgt=tgt, sub=sub, label=label):
            rs, rt = type_range(src), type_range(tgt)
            if rs is None or rt is None:
                return     # non-integer partner (quarter frame etc.): C01 covers those codecs
            I, outs, args = run_fn(F, fk)
            a = unwrap_nt(args[0])
            tok = a.term
            status, why, found = 'proved', '', []
            accept = VS.of([])
            for o in outs:
                v = vs_of(tok, o.st.cons)
                if o.kind != 'return':
                    status, why = ('refuted' if o.kind == 'panic' else 'unproven'), '%s outcome for source in %r: %s' % (o.kind, v, o.why)
                    continue
                r = o.value
                if tr == 'TryFrom':
                    if not isinstance(r, Ag) or r.path != 'core::result::Result':
                        status, why = 'unproven', 'result is %r' % (r,)
                        continue
                    if r.variant == 1:
                        found.append('Err for %r' % v)
                        if not v.meet(VS(*rt)).empty():
                            status, why = 'refuted', 'rejects source value in %r although it is within the target range' % (v.meet(VS(*rt)),)
                        continue
                    r = r.fields[0]
                r = unwrap_nt(r)
                accept = accept.join(v)
                found.append('value preserved for %r' % v)
                if not isinstance(r, Sc) or not (r.term == tok or T.same_value(r.term, tok, o.st.cons, 64)):
                    status, why = 'refuted', 'result %r is not the source value (source in %r)' % (r, v)
                elif not v.subset(VS(*rt)):
                    status, why = 'refuted', 'accepts source value in %r outside the target range %s' % (v, list(rt))
            src_rng = VS(*rs) if src['k'] != 'adt' else VS(*rs)
            want = src_rng.meet(VS(*rt))
            if status == 'proved' and not (want.subset(accept) if want.s is not None or accept.s is None else accept.lo <= want.lo and want.hi <= accept.hi):
                status, why = 'refuted', 'does not accept every source value within the target range: accepts %r, expected %r' % (accept, want)
            chk.ob(key, 'conversion value identity', status, subject=sub,
                   expected='result == source value exactly for sources within %s' % (list(rt),), found=found[:4], why=why)
            return status
        conv_status = guarded(chk, key, 'conversion value identity', ev)
        cstatus, cwhy, cfound, cnt = cast_verdict
        if cstatus == 'refuted' and conv_status == 'proved':
            # a wrapping cast whose result is checked afterwards (round-trip guard): the conversion as a whole was just
            # shown to accept exactly the in-range values and to preserve them, which is what the cast rule is there for
            cstatus, cfound, cwhy = 'proved', cfound + ['wrapping cast, guarded: value identity of the whole conversion is proved (conv obligation)'], ''
        chk.ob('%s/cast/%s/%s' % (PID, cfg, fk), 'cast rule', cstatus, subject=sub,
               expected='operand value set inside the target type at every `as`, or the conversion as a whole proved value-preserving',
               found=cfound, why=cwhy, nontrivial=cnt)
    if cfg == 'K1':
        chk.floor('casts_in_conversions_K1', FLOORS['casts_in_conversions_K1'], ncasts)


ORD_PATH = 'core::cmp::Ordering'
EXPECT = {  # method -> result per ordering of (x, y)
    'eq': {'lt': 0, 'eq': 1, 'gt': 0}, 'ne': {'lt': 1, 'eq': 0, 'gt': 1},
    'lt': {'lt': 1, 'eq': 0, 'gt': 0}, 'le': {'lt': 1, 'eq': 1, 'gt': 0},
    'gt': {'lt': 0, 'eq': 0, 'gt': 1}, 'ge': {'lt': 0, 'eq': 1, 'gt': 1},
    'cmp': {'lt': 0, 'eq': 1, 'gt': 2}, 'partial_cmp': {'lt': 0, 'eq': 1, 'gt': 2},
}
_HOLDS = {'lt': {'lt'}, 'le': {'lt', 'eq'}, 'gt': {'gt'}, 'ge': {'gt', 'eq'}, 'eq': {'eq'}, 'ne': {'lt', 'gt'}}
_FLIP = {'lt': 'gt', 'gt': 'lt', 'eq': 'eq'}


def _strip(t):
    while t[0] == 'cast':
        t = t[2]
    return t


def comparison_semantics(F, fk, method, mx):
    """a hand-written comparison method decided over the finite set of orderings of its two operands:
    every returning path is consistent with some of {x < y, x = y, x > y} (its recorded relational branch conditions),
    and returns what the numeric order prescribes for each of them; all three orderings are covered.
    -> (status, why, found)"""
    from ..interp import Interp, Rf
    from .. import harness as H
    short = [k for k, v in NT.items() if fk.startswith('<' + v + ' as')]
    path = NT[short[0]] if short else None
    if path is None or fk not in F.fns:
        return 'unproven', 'method not found', []
    rep = midi.NEWTYPE_REPR[short[0]]
    I = Interp(F)
    st = I.new_state()
    x, y = T.T('x', rep), T.T('y', rep)
    st.cons[x] = VS(0, mx)
    st.cons[y] = VS(0, mx)
    st.root().locals['a'] = Ag(path, 0, [Sc(x, H.INT(rep))])
    st.root().locals['b'] = Ag(path, 0, [Sc(y, H.INT(rep))])
    outs = [o for o in I.run(fk, [Rf(0, 'a', ()), Rf(0, 'b', ())], [], st) if o.kind != 'dead']
    width = mx.bit_length()
    full_eq = frozenset(frozenset([('b', x[1], j), ('b', y[1], j)]) for j in range(width))
    covered, found = set(), []

    def ev(t, w):
        t = _strip(t)
        if t[0] == 'c':
            return t[1]
        if t[0] == 'not':
            v = ev(t[1], w)
            return None if v is None else 1 - v
        if t[0] == 'cmp':
            a, b = _strip(t[2]), _strip(t[3])
            rel = w if (a, b) == (x, y) else _FLIP[w] if (a, b) == (y, x) else None
            return None if rel is None else int(rel in _HOLDS[t[1]])
        return None
    for o in outs:
        if o.kind != 'return' or o.st.notes:
            return ('refuted' if o.kind == 'panic' else 'unproven'), '%s outcome %s %s' % (o.kind, o.why, o.st.notes[:1]), found
        om = {'lt', 'eq', 'gt'}
        for kind, payload, truth in o.st.preds:
            if kind == 'lt':
                a, b = _strip(payload[0]), _strip(payload[1])
                sat = {'lt'} if (a, b) == (x, y) else {'gt'} if (a, b) == (y, x) else None
            elif kind == 'eq':
                sat = {'eq'} if payload == full_eq else None
            else:
                sat = None
            if sat is None:
                return 'unproven', 'a branch condition is not a comparison of the two operands: %s' % T.pred_str((kind, payload, truth)), found
            om &= sat if truth else ({'lt', 'eq', 'gt'} - sat)
        # the value sets of the operands may be narrowed by what the orderings of this path imply, and by nothing else
        imp = {'lt': (VS(0, mx - 1), VS(1, mx)), 'eq': (VS(0, mx), VS(0, mx)), 'gt': (VS(1, mx), VS(0, mx - 1))}
        ex, ey = VS.of([]), VS.of([])
        for w in om:
            ex, ey = ex.join(imp[w][0]), ey.join(imp[w][1])
        if om and not (ex.subset(vs_of(x, o.st.cons)) and ey.subset(vs_of(y, o.st.cons))):
            return 'unproven', 'a path depends on the operands otherwise than through their order (x in %r, y in %r)' % (vs_of(x, o.st.cons), vs_of(y, o.st.cons)), found
        v = o.value
        if method == 'partial_cmp':
            pl = H.opt_payload(v)
            v = pl[1] if pl and pl[0] == 'some' else None
        for w in sorted(om):
            if method in ('cmp', 'partial_cmp'):
                got = v.variant if isinstance(v, Ag) and v.path == ORD_PATH else None
            else:
                got = ev(v.term, w) if isinstance(v, Sc) else None
            found.append('x %s y: %r' % ({'lt': '<', 'eq': '=', 'gt': '>'}[w], got))
            if got is None:
                return 'unproven', 'result %r not decided for x %s y' % (o.value, w), found
            if got != EXPECT[method][w]:
                return 'refuted', '%s returns %r for x %s y' % (method, o.value, {'lt': '<', 'eq': '=', 'gt': '>'}[w]), found
            covered.add(w)
    if covered != {'lt', 'eq', 'gt'}:
        return 'unproven', 'no returning path for the orderings %s' % sorted({'lt', 'eq', 'gt'} - covered), found
    return 'proved', '', found


def derives(chk, F):
    cfg = F.cfg
    for short, path in sorted(NT.items()):
        a = F.adts.get(path)
        if a is None:
            chk.ob('%s/derive/%s/%s' % (PID, cfg, short), 'derived comparison', 'unproven', why='type missing', nontrivial=False)
            continue
        fs = a['variants'][0]['fields']
        unsigned = len(fs) == 1 and fs[0]['ty']['k'] == 'int' and fs[0]['ty']['name'][0] == 'u'
        n = 0
        for tr in ('core::cmp::PartialEq', 'core::cmp::Eq', 'core::cmp::PartialOrd', 'core::cmp::Ord', 'core::hash::Hash', 'core::default::Default'):
            ims = [im for im in F.impls if im.get('trait') == tr and im['self']['k'] == 'adt' and im['self']['path'] == path]
            # comparisons against other types (PartialEq<u8> ...) would be additional impls with trait args
            ok = len(ims) == 1 and builtin_derive(ims[0]) and unsigned
            n += int(ok)
            tname = tr.split('::')[-1]
            if not ok and len(ims) == 1 and unsigned and tname in ('PartialEq', 'PartialOrd', 'Ord', 'Eq', 'Hash', 'Default'):
                # a hand-written impl: decided semantically (comparisons over the orderings of the operands; Default by the
                # default obligation below; Eq has no method; Hash is not part of the property)
                n += 1
                methods = {'PartialEq': ('eq', 'ne'), 'PartialOrd': ('partial_cmp', 'lt', 'le', 'gt', 'ge'), 'Ord': ('cmp',)}.get(tname, ())
                extra = [m for m in ('max', 'min', 'clamp') if tname == 'Ord' and '<%s as %s>::%s' % (path, tr, m) in F.fns]
                for m in methods:
                    fk = '<%s as %s>::%s' % (path, tr, m)
                    if fk not in F.fns:
                        continue          # the trait's default method, defined by the ones that are written
                    key = '%s/compare/%s/%s/%s' % (PID, cfg, short, m)

                    def evc(fk=fk, m=m, key=key, short=short):
                        status, why, found = comparison_semantics(F, fk, m, midi.NEWTYPE_MAX[short])
                        chk.ob(key, 'comparison agrees with the numeric order', status, subject=fn_subject(F, fk),
                               expected='%s(x, y) as the numeric order of the stored values prescribes, for x < y, x = y, x > y' % m, found=found[:6], why=why)
                    guarded(chk, key, 'comparison agrees with the numeric order', evc)
                if extra:
                    chk.ob('%s/compare/%s/%s/overrides' % (PID, cfg, short), 'comparison agrees with the numeric order', 'unproven',
                           why='hand-written %s are not decided' % extra, nontrivial=False)
                continue
            chk.ob('%s/derive/%s/%s/%s' % (PID, cfg, short, tname), 'derived comparison',
                   'proved' if ok else 'unproven', subject={'at': ims[0]['span']['callsite'] if ims else a['span']['callsite'], 'config': cfg},
                   expected='exactly one impl, generated by the builtin derive, on a single unsigned field',
                   found=[(im['span']['macros'][:1], im['automatically_derived']) for im in ims],
                   why='' if ok else 'a hand-written or foreign-derive impl is not covered by the structural rule', nontrivial=False)
        chk.floors['derive_impls/%s/%s' % (cfg, short)] = [FLOORS['derive_impls_per_type'], n]
        mx = midi.NEWTYPE_MAX[short]
        for cname, want in (('MIN', 0), ('MAX', mx)):
            key = '%s/const/%s/%s::%s' % (PID, cfg, short, cname)

            def ev(cname=cname, want=want, key=key, path=path):
                fk = '%s::%s' % (path, cname)
                if fk not in F.fns:
                    return chk.ob(key, 'constant value', 'unproven', why='constant not found')
                I, outs, args = run_fn(F, fk)
                r = unwrap_nt(outs[0].value) if len(outs) == 1 and outs[0].kind == 'return' else None
                ok = isinstance(r, Sc) and r.term == T.C(want)
                chk.ob(key, 'constant value', 'proved' if ok else 'refuted', subject=fn_subject(F, fk), expected=want, found=r)
            guarded(chk, key, 'constant value', ev)
        key = '%s/default/%s/%s' % (PID, cfg, short)

        def evd(key=key, path=path):
            fk = '<%s as core::default::Default>::default' % path
            if fk not in F.fns:
                return chk.ob(key, 'constant value', 'unproven', why='Default impl not found')
            I, outs, args = run_fn(F, fk)
            r = unwrap_nt(outs[0].value) if len(outs) == 1 and outs[0].kind == 'return' else None
            ok = isinstance(r, Sc) and r.term == T.C(0)
            chk.ob(key, 'constant value', 'proved' if ok else 'refuted', subject=fn_subject(F, fk), expected=0, found=r)
        guarded(chk, key, 'constant value', evd)


def display_fromstr(chk, F):
    cfg = F.cfg
    for short, path in sorted(NT.items()):
        rep = midi.NEWTYPE_REPR[short]
        key = '%s/display/%s/%s' % (PID, cfg, short)

        def evd(key=key, path=path, rep=rep):
            fk = '<%s as core::fmt::Display>::fmt' % path
            if fk not in F.fns:
                return chk.ob(key, 'Display delegation', 'unproven', why='Display impl not found')
            I, outs, args = run_fn(F, fk)
            selfv = I.deref_all(outs[0].st, args[0]) if outs else None
            tok = unwrap_nt(selfv)
            status, why = 'proved', ''
            for o in outs:
                calls = [e for e in o.st.events if e[0] == 'fmt-call']
                others = [e for e in o.st.events if e[0] == 'fmt-other']
                want = 'core::fmt::num::imp::<impl core::fmt::Display for %s>::fmt' % rep
                if o.kind != 'return' or len(calls) != 1 or others:
                    status, why = 'unproven', 'expected a single delegation to %s, saw %r %r (%s)' % (want, [c[2] for c in calls], others, o.kind)
                    continue
                c = calls[0]
                if c[2] != want:
                    status, why = 'refuted', 'formats through %s instead of the primitive Display' % c[2]
                elif not isinstance(tok, Sc) or c[3][0] != val_key(tok):
                    status, why = 'refuted', 'the formatted operand %r is not the stored value' % (c[3][0],)
                elif not (isinstance(o.value, Sc) and o.value.term == c[4]):
                    status, why = 'refuted', 'the result of the primitive fmt is not what is returned'
            chk.ob(key, 'Display delegation', status, subject=fn_subject(F, fk),
                   expected='fmt(self, f) == <%s as Display>::fmt(&self.0, f)' % rep, found=[o.kind for o in outs], why=why)
        guarded(chk, key, 'Display delegation', evd)

        key = '%s/fromstr/%s/%s' % (PID, cfg, short)

        def evf(key=key, path=path, rep=rep, short=short):
            fk = '<%s as core::str::traits::FromStr>::from_str' % path
            if fk not in F.fns:
                return chk.ob(key, 'FromStr delegation', 'unproven', why='FromStr impl not found')
            I, outs, args = run_fn(F, fk)
            status, why = 'proved', ''
            src_key = val_key(args[0])
            for o in outs:
                ps = [e for e in o.st.events if e[0] == 'from_str']
                if o.kind != 'return':
                    status, why = 'refuted' if o.kind == 'panic' else 'unproven', '%s outcome (%s)' % (o.kind, o.why)
                elif len(ps) != 1 or ps[0][1] != rep:
                    status, why = 'unproven', 'expected exactly one call of <%s as FromStr>::from_str, saw %r' % (rep, ps)
                elif ps[0][2] != src_key:
                    status, why = 'refuted', 'the string handed to the primitive parser is not the unmodified input'
                elif o.st.notes:
                    status, why = 'unproven', 'unmodelled callee on the path: %s' % o.st.notes[:2]
            chk.ob(key, 'FromStr delegation', status, subject=fn_subject(F, fk),
                   expected='one call of <%s as FromStr>::from_str(source), then only the range guard' % rep,
                   found=['%s %r' % (o.kind, o.value) for o in outs][:4], why=why)
        guarded(chk, key, 'FromStr delegation', evf)
        # the accept/reject sets of from_str relative to the parsed number are C04 R4.4 obligations; repeated here
        from .c04 import r44_exactness  # noqa


def run(tier, cmd):
    chk = Check(PID, tier, 'other',
                'cast rule over abstract-interpretation value sets at every `as` of the conversion impls; outcome summaries '
                '(result term == source token) of all From/TryFrom impls; builtin-derive audit for Eq/Ord/Hash/Default; '
                'evaluation of MIN/MAX/default(); delegation shape of Display and FromStr',
                cmd, trusted_base=TRUSTED + ["core's integer parser (accepted numeral grammar) and core's Display for u8/u16 (printed text)"],
                assumptions=['newtype values entering a conversion satisfy their range invariant (C04)'],
                explanation='Decides: every conversion into/out of the six newtypes accepts exactly the in-range sources and preserves the '
                            'mathematical value (all impls, all analysed configurations); comparison/hash/default agree with the numeric value '
                            'because they are the builtin derives on one unsigned field; MIN/MAX/default constants; Display and FromStr '
                            'delegate to the primitive implementation with the stored value / unmodified input plus only the range guard. '
                            'Not decided (outside the crate source, trusted): which strings core\'s parser accepts (digits with optional +) '
                            'and the decimal text core prints, hence print-then-parse identity is decided only modulo core.')
    cfgs = ['K1', 'K2'] + (['K3', 'K4'] if tier == 'thorough' else [])
    Fs = load_configs(chk, cfgs, required=('K1', 'K2'))
    for cfg, F in sorted(Fs.items()):
        A = guarded(chk, '%s/audit/%s' % (PID, cfg), 'cast rule', lambda F=F: audit.get(F))
        if A is not None:
            guarded(chk, '%s/conversions/%s' % (PID, cfg), 'cast rule', lambda F=F, A=A: conversions(chk, F, A))
            chk.extra.setdefault('functions_interpreted', {})[cfg] = len(A.fns_entered)
        guarded(chk, '%s/derives/%s' % (PID, cfg), 'derived comparison', lambda F=F: derives(chk, F))
        guarded(chk, '%s/display-fromstr/%s' % (PID, cfg), 'Display delegation', lambda F=F: display_fromstr(chk, F))
    return chk.finish()
