"""Whole-crate site audit: interpret every externally callable body from an abstract entry state
and collect, per MIR site, what the abstract interpreter saw there (construction operands, cast
operands, calls to unsafe constructors, panic-capable terminators).  Used by C04, C05, C18, C19.
"""
import pickle
import os
import time

from . import terms as T
from .terms import VS, vs_of
from .interp import Interp, Sc, Ag, Ar, Rf, Un, subst_ty, scalar_name
from .entry import entry_args
from . import invariants


class Audit(object):
    def __init__(self, F):
        self.F = F
        self.ctor = {}        # site -> [(path, variant, [VS|None...], extra, stack)]
        self.cast = {}        # site -> [(VS|None, from, to, kind, fnkey, stack)]
        self.asserts = {}     # site -> [(msg, fail_possible, stack)]
        self.calls = {}       # site -> [(path, resolved, stack)]
        self.unsafe_calls = {}  # site -> [(callee, [arg summaries], ok, stack)]
        self.panics = {}      # site -> [(why, entry, cons summary)]
        self.lost = []        # (entry, site, why)
        self.reached = set()
        self.entries = []
        self.unmodelled = {}
        self.unmodelled_info = {}
        self.outcomes = {}    # entry -> [(kind, why, site)]
        self.escape = {}      # entry -> {'bad': [text], 'complete': bool}: invariant-carrying values that leave the entry
        self.fns_entered = set()
        self.steps = 0
        self.wall = 0.0


def generic_subst(fn):
    return [{'k': 'param', 'name': g['name'], 'index': g['index']} if g['kind'] == 'type' else {'k': 'lifetime'}
            for g in fn['generics']]


def is_entry(f):
    if f['kind'] in ('Const', 'AssocConst'):
        return True
    if f['kind'] not in ('Fn', 'AssocFn'):
        return False
    return bool(f.get('reachable') or f.get('impl_trait') or f.get('trait_default_of'))


class AuditInterp(Interp):
    """interpreter in audit mode: calls that receive a pointer into a summarised array cell are
    not inlined; the callee is analysed separately from an unconstrained cell (deferred entry)."""

    def __init__(self, F, audit):
        Interp.__init__(self, F, observe=True)
        self.audit = audit
        self.deferred = {}
        self.escape_bad = []
        self.struct_invariant = invariants.holds_at_ctor

    def invoke_local(self, st, fr, t, key, args, gargs, on_ret=None):
        fn = self.F.fns.get(key)
        if fn is not None and on_ret is None:
            for a in args:
                if isinstance(a, Rf) and any(p[0] == 'i' and not vs_of(p[1], st.cons).single() for p in a.path):
                    from .mirpp import ty_str
                    self.deferred[(key, tuple(ty_str(g) for g in gargs))] = gargs
                    # what is handed to the separately analysed callee leaves this entry
                    self.escape_bad.extend(escaping_violations(self, st, [self.deref_all(st, x) for x in args]))
                    self.havoc_args(st, args)
                    st.events.append(('summarised-call', key))
                    return self.done(st, fr, t, self.top_of(st, self.ret_ty(fr, t), 'ret'))
        if fn is not None and fn.get('unsafe') and self.observe:
            self.note_unsafe_call(st, fr, key, args)
        return Interp.invoke_local(self, st, fr, t, key, args, gargs, on_ret)

    def note_unsafe_call(self, st, fr, key, args):
        site = (fr.key, fr.bb, 't')
        ok, why = invariants.unsafe_call_ok(self, st, key, args)
        self.audit.unsafe_calls.setdefault(site, []).append((key, why, ok, self.stack_keys(st)))


def escaping_violations(I, st, values):
    """invariant-carrying values among `values` (nested) that do not satisfy their invariant under the constraints of st"""
    from .interp import NEWTYPE_MAX
    out, seen = [], set()

    def walk(v, depth=0):
        if depth > 8 or id(v) in seen:
            return
        seen.add(id(v))
        if isinstance(v, Rf):
            try:
                walk(I.deref(st, v), depth + 1)
            except Exception:       # noqa
                pass
            return
        if isinstance(v, Ag):
            if v.path in NEWTYPE_MAX and v.fields and isinstance(v.fields[0], Sc):
                vs = vs_of(v.fields[0].term, st.cons)
                if not vs.subset(VS(0, NEWTYPE_MAX[v.path])):
                    out.append('%s with value in %r' % (v.path.split('::')[-1], vs))
            elif v.path in invariants.STRUCTS:
                r = invariants.holds_at_ctor(I, st, v)
                if r is not None and r[0] is not True:
                    out.append('%s: %s' % (v.path.split('::')[-1], r[1]))
            for f in v.fields:
                walk(f, depth + 1)
        elif isinstance(v, Ar):
            for e in (v.elems[:1] if v.elems and all(e is v.elems[0] for e in v.elems) else v.elems):
                walk(e, depth + 1)
    for v in values:
        walk(v)
    return out


def abstract_unsafe_hook(audit):
    """abstract `Self::from_bytes_unchecked(bytes)`: the safety obligation is checked at the call site"""
    def hook(I, st, fr, t, args, gargs):
        site = (fr.key, fr.bb, 't')
        ok, why = invariants.unsafe_call_ok(I, st, 'short_message_factory::ShortMessageFactory::from_bytes_unchecked', args)
        audit.unsafe_calls.setdefault(site, []).append(('<Self as ShortMessageFactory>::from_bytes_unchecked', why, ok, I.stack_keys(st)))
        return I.top_of(st, I.ret_ty(fr, t), 'msg')
    return hook


SM = 'short_message::ShortMessage'


def abstract_getters():
    """getters of an abstract `impl ShortMessage`: one token per receiver and getter; the status byte
    of a short message is valid by the trait's contract (assumed for third-party implementors,
    proved for RawShortMessage / StructuredShortMessage by the construction-site audit)"""
    def mk(name, hint):
        def hook(I, st, fr, t, args, gargs):
            recv = args[0]
            slot = ('absmsg', repr(recv), name)
            memo = st.root().locals.get(slot)
            if memo is not None:
                return memo
            if name == 'status_byte':
                tok = st.fresh('msg.status', 'u8')
                st.cons[tok] = VS(0x80, 0xFF)
                v = Sc(tok, {'k': 'int', 'name': 'u8'})
            else:
                tok = st.fresh('msg.' + hint, 'u8')
                st.cons[tok] = VS(0, 127)
                v = Ag('u7_mod::U7', 0, [Sc(tok, {'k': 'int', 'name': 'u8'})])
            st.root().locals[slot] = v
            return v
        return hook
    return {(SM, 'status_byte'): mk('status_byte', 'status'), (SM, 'data_byte_1'): mk('data_byte_1', 'd1'),
            (SM, 'data_byte_2'): mk('data_byte_2', 'd2')}


def run_audit(F, only=None):
    t0 = time.time()
    A = Audit(F)
    todo = []
    for k, f in F.fns.items():
        if is_entry(f) and (only is None or only(k)):
            todo.append((k, generic_subst(f)))
    seen = set()
    while todo:
        key, subst = todo.pop(0)
        from .mirpp import ty_str
        sk = (key, tuple(ty_str(g) if g and g.get('k') != 'lifetime' else "'" for g in subst))
        if sk in seen:
            continue
        seen.add(sk)
        fn = F.fns[key]
        I = AuditInterp(F, A)
        I.abstract_methods = dict(abstract_getters())
        I.abstract_methods[('short_message_factory::ShortMessageFactory', 'from_bytes_unchecked')] = abstract_unsafe_hook(A)
        st0 = I.new_state()
        try:
            args = entry_args(I, st0, fn, subst)
            if fn.get('unsafe'):
                invariants.assume_unsafe_contract(I, st0, key, args)
            starts = invariants.assume_all(I, st0, args)
        except Exception as e:      # fail closed
            A.lost.append((key, None, 'entry construction failed: %r' % (e,)))
            continue
        A.entries.append(key)
        outs = []
        for st, a in starts:
            I.outcomes = []
            outs.extend(I.run(key, a, subst, st))
        oc = []
        for o in outs:
            oc.append((o.kind, o.why, o.site))
            if o.kind == 'lost':
                A.lost.append((key, o.site, o.why))
            if o.kind == 'panic':
                cons = {T.tstr(k): repr(v) for k, v in list(o.st.cons.items())[:12] if k[0] == 't'}
                A.panics.setdefault(o.site, []).append((o.why, key, cons, tuple(f.key for f in o.st.frames if isinstance(f.key, str))))
        A.outcomes[key] = oc
        bad = list(I.escape_bad)
        for o in outs:
            if o.kind == 'return':
                bad.extend(escaping_violations(I, o.st, [o.value] + [v for k2, v in o.st.root().locals.items() if isinstance(k2, str)]))
        A.escape[key] = {'bad': bad[:5], 'complete': not any(o.kind == 'lost' for o in outs)}
        for d, dst in ((I.obs_ctor, A.ctor), (I.obs_cast, A.cast), (I.obs_assert, A.asserts), (I.obs_call, A.calls)):
            for site, lst in d.items():
                dst.setdefault(site, []).extend(lst)
        A.reached |= I.reached
        A.fns_entered |= I.fns_entered
        A.steps += I.total_steps
        for k2, n in I.unmodelled.items():
            A.unmodelled[k2] = A.unmodelled.get(k2, 0) + n
        A.unmodelled_info.update(I.unmodelled_info)
        for (dk, _), gargs in I.deferred.items():
            todo.append((dk, gargs))
    A.wall = time.time() - t0
    return A


_cache = {}


def get(F):
    """one audit per (tree, configuration); cached on disk next to the facts"""
    if F.cfg in _cache:
        return _cache[F.cfg]
    from . import facts
    import hashlib
    src = hashlib.sha256()
    here = os.path.dirname(os.path.abspath(__file__))
    for n in sorted(os.listdir(here)):
        if n.endswith('.py'):
            src.update(open(os.path.join(here, n), 'rb').read())
    p = os.path.join(facts.CACHE, 'facts', F.tree, '%s.audit.%s.pkl' % (F.cfg, src.hexdigest()[:12]))
    if os.path.exists(p):
        try:
            A = pickle.load(open(p, 'rb'))
            A.F = F
            _cache[F.cfg] = A
            return A
        except Exception:
            pass
    A = run_audit(F)
    A.F = None
    try:
        pickle.dump(A, open(p + '.tmp', 'wb'))
        os.rename(p + '.tmp', p)
    except Exception:
        pass
    A.F = F
    _cache[F.cfg] = A
    return A
