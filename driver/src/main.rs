//! E0 — fact extractor for the helgoboss-midi static analyser.
//!
//! A `rustc_private` driver used as `RUSTC_WORKSPACE_WRAPPER` under `cargo +nightly check`.
//! For the crate `helgoboss_midi` it writes one JSON file (path in `HMSA_FACTS_OUT`) with
//!   * crate facts (loaded crates, enabled `feature` cfgs, whether `std` is linked),
//!   * every local ADT (variants, discriminants, field types and visibilities, Copy-ness),
//!   * every local impl (trait, self type, items, derive / macro provenance),
//!   * every body (fn, assoc fn, closure, const, promoted) with its full MIR.
//! Nothing is decided here; the python side (hmsa/) evaluates the rules.
#![feature(rustc_private)]
extern crate rustc_abi;
extern crate rustc_driver;
extern crate rustc_hir;
extern crate rustc_interface;
extern crate rustc_middle;
extern crate rustc_span;

use rustc_driver::Compilation;
use rustc_hir::def::DefKind;
use rustc_hir::def_id::{DefId, LOCAL_CRATE};
use rustc_middle::mir::{self, Body, Operand, Place, Rvalue, StatementKind, TerminatorKind};
use rustc_middle::ty::print::with_no_visible_paths;
use rustc_middle::ty::print::with_no_trimmed_paths;
use rustc_middle::ty::print::PrintTraitRefExt;
use rustc_middle::ty::{self, Ty, TyCtxt, TypeVisitableExt, TypingEnv};
use std::fmt::Write as _;

// ---------- tiny JSON ----------
fn esc(s: &str) -> String {
    let mut o = String::with_capacity(s.len() + 2);
    o.push('"');
    for c in s.chars() {
        match c {
            '"' => o.push_str("\\\""),
            '\\' => o.push_str("\\\\"),
            '\n' => o.push_str("\\n"),
            '\t' => o.push_str("\\t"),
            c if (c as u32) < 0x20 => {
                let _ = write!(o, "\\u{:04x}", c as u32);
            }
            c => o.push(c),
        }
    }
    o.push('"');
    o
}
fn obj(fields: Vec<(&str, String)>) -> String {
    let mut o = String::from("{");
    for (i, (k, v)) in fields.iter().enumerate() {
        if i > 0 {
            o.push(',');
        }
        o.push_str(&esc(k));
        o.push(':');
        o.push_str(v);
    }
    o.push('}');
    o
}
fn arr(items: Vec<String>) -> String {
    format!("[{}]", items.join(","))
}
fn b(x: bool) -> String {
    format!("{}", x)
}

// ---------- paths (configuration independent) ----------
fn dps<'tcx>(tcx: TyCtxt<'tcx>, did: DefId) -> String {
    with_no_visible_paths!(with_no_trimmed_paths!(tcx.def_path_str(did)))
}
fn dps_args<'tcx>(tcx: TyCtxt<'tcx>, did: DefId, args: ty::GenericArgsRef<'tcx>) -> String {
    with_no_visible_paths!(with_no_trimmed_paths!(tcx.def_path_str_with_args(did, args)))
}

// ---------- types ----------
fn ty_json<'tcx>(tcx: TyCtxt<'tcx>, ty: Ty<'tcx>) -> String {
    use rustc_middle::ty::TyKind as K;
    match ty.kind() {
        K::Bool => obj(vec![("k", esc("bool"))]),
        K::Char => obj(vec![("k", esc("char"))]),
        K::Int(i) => obj(vec![("k", esc("int")), ("name", esc(i.name_str()))]),
        K::Uint(u) => obj(vec![("k", esc("int")), ("name", esc(u.name_str()))]),
        K::Float(f) => obj(vec![("k", esc("float")), ("name", esc(f.name_str()))]),
        K::Adt(def, args) => obj(vec![
            ("k", esc("adt")),
            ("path", esc(&dps(tcx, def.did()))),
            ("krate", esc(tcx.crate_name(def.did().krate).as_str())),
            ("args", gargs_json(tcx, args)),
        ]),
        K::Ref(_, t, m) => obj(vec![("k", esc("ref")), ("mut", b(m.is_mut())), ("ty", ty_json(tcx, *t))]),
        K::RawPtr(t, m) => obj(vec![("k", esc("ptr")), ("mut", b(m.is_mut())), ("ty", ty_json(tcx, *t))]),
        K::Tuple(ts) => obj(vec![("k", esc("tuple")), ("tys", arr(ts.iter().map(|t| ty_json(tcx, t)).collect()))]),
        K::Array(t, n) => {
            // a length spelled with a named constant is unevaluated at this point: normalise it
            let n2 = if n.try_to_target_usize(tcx).is_none() && !n.has_non_region_param() {
                tcx.try_normalize_erasing_regions(TypingEnv::fully_monomorphized(), ty::Unnormalized::new_wip(*n)).unwrap_or(*n)
            } else {
                *n
            };
            let len = match n2.try_to_target_usize(tcx) {
                Some(v) => format!("{}", v),
                None => "null".to_string(),
            };
            obj(vec![("k", esc("array")), ("ty", ty_json(tcx, *t)), ("len", len)])
        }
        K::Slice(t) => obj(vec![("k", esc("slice")), ("ty", ty_json(tcx, *t))]),
        K::Param(p) => obj(vec![("k", esc("param")), ("name", esc(p.name.as_str())), ("index", format!("{}", p.index))]),
        K::FnDef(did, args) => obj(vec![("k", esc("fndef")), ("path", esc(&dps_args(tcx, *did, args)))]),
        K::Closure(did, args) => obj(vec![
            ("k", esc("closure")),
            ("path", esc(&dps(tcx, *did))),
            ("parent_args", gargs_json(tcx, args.as_closure().parent_args())),
        ]),
        K::Never => obj(vec![("k", esc("never"))]),
        K::Str => obj(vec![("k", esc("str"))]),
        K::Alias(..) => obj(vec![("k", esc("alias")), ("s", esc(&with_no_visible_paths!(with_no_trimmed_paths!(format!("{}", ty)))))]),
        _ => obj(vec![("k", esc("other")), ("s", esc(&with_no_visible_paths!(with_no_trimmed_paths!(format!("{}", ty)))))]),
    }
}

/// Generic arguments *with* placeholders for lifetimes and consts so that `Param.index` lines up.
fn gargs_json<'tcx>(tcx: TyCtxt<'tcx>, args: &[ty::GenericArg<'tcx>]) -> String {
    arr(args
        .iter()
        .map(|a| {
            if let Some(t) = a.as_type() {
                ty_json(tcx, t)
            } else if a.as_region().is_some() {
                obj(vec![("k", esc("lifetime"))])
            } else {
                obj(vec![("k", esc("constarg")), ("s", esc(&format!("{}", a)))])
            }
        })
        .collect())
}

fn line_of<'tcx>(tcx: TyCtxt<'tcx>, s: rustc_span::Span) -> String {
    let sm = tcx.sess.source_map();
    let lo = sm.lookup_char_pos(s.lo());
    format!("{}:{}", lo.file.name.prefer_local_unconditionally(), lo.line)
}

fn span_json<'tcx>(tcx: TyCtxt<'tcx>, sp: rustc_span::Span) -> String {
    let cs = sp.source_callsite();
    let mut macros = vec![];
    for e in sp.macro_backtrace() {
        macros.push(esc(&e.kind.descr()));
    }
    obj(vec![
        ("at", esc(&line_of(tcx, sp))),
        ("callsite", esc(&line_of(tcx, cs))),
        ("from_expansion", b(sp.from_expansion())),
        ("macros", arr(macros)),
    ])
}

fn place_json<'tcx>(tcx: TyCtxt<'tcx>, p: &Place<'tcx>) -> String {
    let mut proj = vec![];
    for e in p.projection.iter() {
        use mir::ProjectionElem::*;
        proj.push(match e {
            Deref => obj(vec![("k", esc("deref"))]),
            Field(f, t) => obj(vec![("k", esc("field")), ("i", format!("{}", f.index())), ("ty", ty_json(tcx, t))]),
            Downcast(name, v) => obj(vec![
                ("k", esc("downcast")),
                ("v", format!("{}", v.index())),
                ("name", esc(&name.map(|n| n.to_string()).unwrap_or_default())),
            ]),
            Index(l) => obj(vec![("k", esc("index")), ("local", format!("{}", l.index()))]),
            ConstantIndex { offset, from_end, .. } => {
                obj(vec![("k", esc("cindex")), ("off", format!("{}", offset)), ("from_end", b(from_end))])
            }
            other => obj(vec![("k", esc("unsupported")), ("s", esc(&format!("{:?}", other)))]),
        });
    }
    obj(vec![("local", format!("{}", p.local.index())), ("proj", arr(proj))])
}

fn const_json<'tcx>(tcx: TyCtxt<'tcx>, env: TypingEnv<'tcx>, c: &mir::ConstOperand<'tcx>) -> String {
    let ty = c.const_.ty();
    let mut fields = vec![("k", esc("const")), ("ty", ty_json(tcx, ty))];
    if let ty::TyKind::FnDef(did, args) = ty.kind() {
        fields.push(("fn", callee_json(tcx, env, *did, args)));
        return obj(fields);
    }
    if let mir::Const::Unevaluated(uv, _) = c.const_ {
        fields.push(("def", esc(&dps(tcx, uv.def))));
        fields.push(("def_local", b(uv.def.is_local())));
        fields.push(("def_args", gargs_json(tcx, uv.args)));
        if let Some(p) = uv.promoted {
            fields.push(("promoted", format!("{}", p.index())));
        }
    }
    if let Some(si) = c.const_.try_eval_scalar_int(tcx, env) {
        fields.push(("bits", esc(&format!("{}", si.to_bits_unchecked()))));
        fields.push(("size", format!("{}", si.size().bytes())));
    }
    fields.push(("s", esc(&with_no_visible_paths!(with_no_trimmed_paths!(format!("{}", c.const_))))));
    obj(fields)
}

fn callee_json<'tcx>(tcx: TyCtxt<'tcx>, env: TypingEnv<'tcx>, did: DefId, args: ty::GenericArgsRef<'tcx>) -> String {
    let mut f = vec![
        ("path", esc(&dps(tcx, did))),
        ("path_args", esc(&dps_args(tcx, did, args))),
        ("name", esc(tcx.item_name(did).as_str())),
        ("krate", esc(tcx.crate_name(did.krate).as_str())),
        ("local", b(did.is_local())),
        ("args", gargs_json(tcx, args)),
        ("kind", esc(&format!("{:?}", tcx.def_kind(did)))),
    ];
    if matches!(tcx.def_kind(did), DefKind::Fn | DefKind::AssocFn) {
        let sig = tcx.fn_sig(did).instantiate_identity().skip_norm_wip();
        f.push(("unsafe", b(sig.safety().is_unsafe())));
    }
    if let DefKind::Ctor(..) = tcx.def_kind(did) {
        let parent = tcx.parent(did);
        let (adt_did, vidx) = if matches!(tcx.def_kind(parent), DefKind::Variant) {
            let adt_did = tcx.parent(parent);
            (adt_did, tcx.adt_def(adt_did).variant_index_with_id(parent).index())
        } else {
            (parent, 0)
        };
        f.push(("ctor_adt", esc(&dps(tcx, adt_did))));
        f.push(("ctor_variant", format!("{}", vidx)));
    }
    if let Some(tr) = tcx.trait_of_assoc(did) {
        f.push(("trait", esc(&dps(tcx, tr))));
        f.push(("has_default", b(tcx.defaultness(did).has_value())));
        f.push(("trait_local", b(tr.is_local())));
    }
    if let Some(im) = tcx.impl_of_assoc(did) {
        f.push(("impl_self", ty_json(tcx, tcx.type_of(im).instantiate_identity().skip_norm_wip())));
        if let Some(tr) = tcx.impl_opt_trait_ref(im) {
            let tr = tr.instantiate_identity().skip_norm_wip();
            f.push(("impl_trait", esc(&dps(tcx, tr.def_id))));
        }
    }
    match ty::Instance::try_resolve(tcx, env, did, args) {
        Ok(Some(inst)) => {
            let rd = inst.def_id();
            f.push(("resolved", esc(&dps(tcx, rd))));
            f.push(("resolved_args", gargs_json(tcx, inst.args)));
            f.push(("resolved_local", b(rd.is_local())));
            f.push(("resolved_krate", esc(tcx.crate_name(rd.krate).as_str())));
            f.push(("resolved_kind", esc(&format!("{:?}", std::mem::discriminant(&inst.def)))));
        }
        Ok(None) => f.push(("resolved", "null".into())),
        Err(_) => f.push(("resolved", esc("ERR"))),
    }
    obj(f)
}

fn operand_json<'tcx>(tcx: TyCtxt<'tcx>, env: TypingEnv<'tcx>, o: &Operand<'tcx>) -> String {
    match o {
        Operand::Copy(p) => obj(vec![("k", esc("copy")), ("place", place_json(tcx, p))]),
        Operand::Move(p) => obj(vec![("k", esc("move")), ("place", place_json(tcx, p))]),
        Operand::Constant(c) => const_json(tcx, env, c),
        #[allow(unreachable_patterns)]
        other => obj(vec![("k", esc("unsupported")), ("s", esc(&format!("{:?}", other)))]),
    }
}

fn rvalue_json<'tcx>(tcx: TyCtxt<'tcx>, env: TypingEnv<'tcx>, body: &Body<'tcx>, rv: &Rvalue<'tcx>) -> String {
    let op = |o: &Operand<'tcx>| operand_json(tcx, env, o);
    match rv {
        Rvalue::Use(o, _) => obj(vec![("k", esc("use")), ("op", op(o))]),
        Rvalue::Ref(_, bk, p) => obj(vec![
            ("k", esc("ref")),
            ("mut", b(matches!(bk, mir::BorrowKind::Mut { .. }))),
            ("place", place_json(tcx, p)),
        ]),
        Rvalue::RawPtr(_, p) => obj(vec![("k", esc("rawptr")), ("place", place_json(tcx, p))]),
        Rvalue::BinaryOp(bop, ops) => obj(vec![
            ("k", esc("binop")),
            ("op", esc(&format!("{:?}", bop))),
            ("l", op(&ops.0)),
            ("r", op(&ops.1)),
            ("lty", ty_json(tcx, ops.0.ty(body, tcx))),
        ]),
        Rvalue::UnaryOp(u, o) => obj(vec![
            ("k", esc("unop")),
            ("op", esc(&format!("{:?}", u))),
            ("x", op(o)),
            ("xty", ty_json(tcx, o.ty(body, tcx))),
        ]),
        Rvalue::Cast(ck, o, t) => obj(vec![
            ("k", esc("cast")),
            ("kind", esc(&format!("{:?}", ck))),
            ("x", op(o)),
            ("ty", ty_json(tcx, *t)),
            ("from", ty_json(tcx, o.ty(body, tcx))),
        ]),
        Rvalue::Discriminant(p) => obj(vec![
            ("k", esc("discr")),
            ("place", place_json(tcx, p)),
            ("of", ty_json(tcx, p.ty(body, tcx).ty)),
        ]),
        Rvalue::Aggregate(ak, ops) => {
            let kind = match &**ak {
                mir::AggregateKind::Adt(did, vi, args, _, _) => obj(vec![
                    ("k", esc("adt")),
                    ("path", esc(&dps(tcx, *did))),
                    ("variant", format!("{}", vi.index())),
                    ("args", gargs_json(tcx, args)),
                ]),
                mir::AggregateKind::Tuple => obj(vec![("k", esc("tuple"))]),
                mir::AggregateKind::Array(_) => obj(vec![("k", esc("array"))]),
                mir::AggregateKind::Closure(did, _) => obj(vec![("k", esc("closure")), ("path", esc(&dps(tcx, *did)))]),
                other => obj(vec![("k", esc("unsupported")), ("s", esc(&format!("{:?}", other)))]),
            };
            obj(vec![("k", esc("aggregate")), ("kind", kind), ("ops", arr(ops.iter().map(|o| op(o)).collect()))])
        }
        Rvalue::Repeat(o, n) => {
            let n = if n.try_to_target_usize(tcx).is_none() && !n.has_non_region_param() {
                tcx.try_normalize_erasing_regions(TypingEnv::fully_monomorphized(), ty::Unnormalized::new_wip(*n)).unwrap_or(*n)
            } else {
                *n
            };
            let len = match n.try_to_target_usize(tcx) {
                Some(v) => format!("{}", v),
                None => "null".to_string(),
            };
            obj(vec![("k", esc("repeat")), ("x", op(o)), ("n", len)])
        }
        Rvalue::CopyForDeref(p) => obj(vec![("k", esc("use")), ("op", obj(vec![("k", esc("copy")), ("place", place_json(tcx, p))]))]),
        other => obj(vec![("k", esc("unsupported")), ("s", esc(&format!("{:?}", other)))]),
    }
}

fn body_json<'tcx>(tcx: TyCtxt<'tcx>, did: DefId, body: &Body<'tcx>) -> String {
    let env = TypingEnv::post_analysis(tcx, did);
    let locals: Vec<String> = body.local_decls.iter().map(|d| ty_json(tcx, d.ty)).collect();
    let mut blocks = vec![];
    for (_bb, data) in body.basic_blocks.iter_enumerated() {
        let mut stmts = vec![];
        for s in &data.statements {
            match &s.kind {
                StatementKind::Assign(bx) => {
                    let (p, rv) = &**bx;
                    stmts.push(obj(vec![
                        ("k", esc("assign")),
                        ("place", place_json(tcx, p)),
                        ("rv", rvalue_json(tcx, env, body, rv)),
                        ("span", span_json(tcx, s.source_info.span)),
                    ]));
                }
                StatementKind::SetDiscriminant { place, variant_index } => stmts.push(obj(vec![
                    ("k", esc("setdiscr")),
                    ("place", place_json(tcx, place)),
                    ("v", format!("{}", variant_index.index())),
                    ("span", span_json(tcx, s.source_info.span)),
                ])),
                StatementKind::StorageLive(_)
                | StatementKind::StorageDead(_)
                | StatementKind::Nop
                | StatementKind::FakeRead(..)
                | StatementKind::AscribeUserType(..)
                | StatementKind::PlaceMention(..)
                | StatementKind::Coverage(..)
                | StatementKind::ConstEvalCounter
                | StatementKind::BackwardIncompatibleDropHint { .. } => {}
                other => stmts.push(obj(vec![
                    ("k", esc("unsupported")),
                    ("s", esc(&format!("{:?}", other))),
                    ("span", span_json(tcx, s.source_info.span)),
                ])),
            }
        }
        let t = data.terminator();
        let sp = ("span", span_json(tcx, t.source_info.span));
        let term = match &t.kind {
            TerminatorKind::Goto { target } => obj(vec![("k", esc("goto")), ("t", format!("{}", target.index()))]),
            TerminatorKind::SwitchInt { discr, targets } => {
                let mut ts = vec![];
                for (v, bb) in targets.iter() {
                    ts.push(format!("[{},{}]", esc(&format!("{}", v)), bb.index()));
                }
                obj(vec![
                    ("k", esc("switch")),
                    ("x", operand_json(tcx, env, discr)),
                    ("ty", ty_json(tcx, discr.ty(body, tcx))),
                    ("targets", arr(ts)),
                    ("otherwise", format!("{}", targets.otherwise().index())),
                    sp,
                ])
            }
            TerminatorKind::Return => obj(vec![("k", esc("return"))]),
            TerminatorKind::Unreachable => obj(vec![("k", esc("unreachable"))]),
            TerminatorKind::UnwindResume | TerminatorKind::UnwindTerminate(_) => obj(vec![("k", esc("resume"))]),
            TerminatorKind::Drop { target, place, .. } => obj(vec![
                ("k", esc("drop")),
                ("t", format!("{}", target.index())),
                ("place", place_json(tcx, place)),
            ]),
            TerminatorKind::Call { func, args, destination, target, .. } => obj(vec![
                ("k", esc("call")),
                ("f", operand_json(tcx, env, func)),
                ("args", arr(args.iter().map(|a| operand_json(tcx, env, &a.node)).collect())),
                ("dest", place_json(tcx, destination)),
                ("t", target.map(|t| format!("{}", t.index())).unwrap_or("null".into())),
                sp,
            ]),
            TerminatorKind::Assert { cond, expected, msg, target, .. } => {
                let kind = match &**msg {
                    mir::AssertKind::BoundsCheck { .. } => "BoundsCheck".to_string(),
                    mir::AssertKind::Overflow(op, ..) => format!("Overflow({:?})", op),
                    mir::AssertKind::OverflowNeg(..) => "OverflowNeg".to_string(),
                    mir::AssertKind::DivisionByZero(..) => "DivisionByZero".to_string(),
                    mir::AssertKind::RemainderByZero(..) => "RemainderByZero".to_string(),
                    other => format!("{:?}", std::mem::discriminant(other)),
                };
                obj(vec![
                    ("k", esc("assert")),
                    ("cond", operand_json(tcx, env, cond)),
                    ("expected", b(*expected)),
                    ("msg", esc(&kind)),
                    ("t", format!("{}", target.index())),
                    sp,
                ])
            }
            other => obj(vec![("k", esc("unsupported")), ("s", esc(&format!("{:?}", other))), sp]),
        };
        blocks.push(obj(vec![("cleanup", b(data.is_cleanup)), ("stmts", arr(stmts)), ("term", term)]));
    }
    obj(vec![("arg_count", format!("{}", body.arg_count)), ("locals", arr(locals)), ("blocks", arr(blocks))])
}

fn generics_json<'tcx>(tcx: TyCtxt<'tcx>, did: DefId) -> String {
    // flattened list (parents first) of generic parameter names with kind, index == position
    fn collect<'tcx>(tcx: TyCtxt<'tcx>, did: DefId, out: &mut Vec<String>) {
        let g = tcx.generics_of(did);
        if let Some(p) = g.parent {
            collect(tcx, p, out);
        }
        for p in &g.own_params {
            let kind = match p.kind {
                ty::GenericParamDefKind::Lifetime => "lifetime",
                ty::GenericParamDefKind::Type { .. } => "type",
                ty::GenericParamDefKind::Const { .. } => "const",
            };
            out.push(obj(vec![("name", esc(p.name.as_str())), ("kind", esc(kind)), ("index", format!("{}", p.index))]));
        }
    }
    let mut out = vec![];
    collect(tcx, did, &mut out);
    arr(out)
}

struct Cb;
impl rustc_driver::Callbacks for Cb {
    fn after_analysis<'tcx>(&mut self, _c: &rustc_interface::interface::Compiler, tcx: TyCtxt<'tcx>) -> Compilation {
        let krate = tcx.crate_name(LOCAL_CRATE);
        if krate.as_str() != "helgoboss_midi" {
            return Compilation::Continue;
        }
        let path = match std::env::var("HMSA_FACTS_OUT") {
            Ok(p) => p,
            Err(_) => return Compilation::Continue,
        };
        // only the lib target (no cfg(test))
        if tcx.sess.opts.test {
            return Compilation::Continue;
        }
        let mut fns = vec![];
        for ldid in tcx.mir_keys(()) {
            let did = ldid.to_def_id();
            let kind = tcx.def_kind(did);
            let body: &Body<'tcx> = match kind {
                DefKind::Fn | DefKind::AssocFn | DefKind::Closure => tcx.optimized_mir(did),
                DefKind::Const { .. } | DefKind::AssocConst { .. } => tcx.mir_for_ctfe(did),
                _ => continue,
            };
            let key = dps(tcx, did);
            let mut f = vec![
                ("key", esc(&key)),
                ("kind", esc(&format!("{:?}", kind).split(' ').next().unwrap_or("").replace('{', ""))),
                ("name", esc(&tcx.opt_item_name(did).map(|s| s.to_string()).unwrap_or_default())),
                ("span", span_json(tcx, tcx.def_span(did))),
                ("generics", generics_json(tcx, did)),
            ];
            if matches!(kind, DefKind::Fn | DefKind::AssocFn | DefKind::Const { .. } | DefKind::AssocConst { .. }) {
                let ev = tcx.effective_visibilities(());
                f.push(("reachable", b(ev.is_reachable(*ldid))));
                f.push(("exported", b(ev.is_exported(*ldid))));
            }
            if matches!(kind, DefKind::Fn | DefKind::AssocFn) {
                f.push(("vis", esc(&format!("{:?}", tcx.visibility(did)))));
                let sig = tcx.fn_sig(did).instantiate_identity().skip_norm_wip();
                f.push(("unsafe", b(sig.safety().is_unsafe())));
                f.push(("const_fn", b(tcx.is_const_fn(did))));
                let sig = sig.skip_binder();
                f.push(("inputs", arr(sig.inputs().iter().map(|t| ty_json(tcx, *t)).collect())));
                f.push(("output", ty_json(tcx, sig.output())));
            }
            if matches!(kind, DefKind::Closure) {
                f.push(("parent", esc(&dps(tcx, tcx.typeck_root_def_id(did)))));
            }
            if let Some(tr) = tcx.trait_of_assoc(did) {
                f.push(("trait_default_of", esc(&dps(tcx, tr))));
            }
            if let Some(im) = tcx.impl_of_assoc(did) {
                f.push(("impl", esc(&dps(tcx, im))));
                f.push(("impl_self", ty_json(tcx, tcx.type_of(im).instantiate_identity().skip_norm_wip())));
                if let Some(tr) = tcx.impl_opt_trait_ref(im) {
                    let tr = tr.instantiate_identity().skip_norm_wip();
                    f.push(("impl_trait", esc(&dps(tcx, tr.def_id))));
                    f.push(("impl_trait_args", gargs_json(tcx, tr.args)));
                    f.push((
                        "impl_trait_str",
                        esc(&with_no_visible_paths!(with_no_trimmed_paths!(format!("{}", tr.print_only_trait_path())))),
                    ));
                }
            }
            f.push(("body", body_json(tcx, did, body)));
            // promoteds of fn-like bodies
            if matches!(kind, DefKind::Fn | DefKind::AssocFn | DefKind::Closure) {
                let proms = tcx.promoted_mir(did);
                let mut ps = vec![];
                for pb in proms.iter() {
                    ps.push(body_json(tcx, did, pb));
                }
                f.push(("promoted", arr(ps)));
            }
            fns.push(obj(f));
        }
        // ADTs
        let mut adts = vec![];
        let mut impls = vec![];
        let mut statics = vec![];
        let mut traits = vec![];
        for id in tcx.hir_crate_items(()).definitions() {
            let did = id.to_def_id();
            match tcx.def_kind(did) {
                DefKind::Struct | DefKind::Enum | DefKind::Union => {
                    let adt = tcx.adt_def(did);
                    let mut vs = vec![];
                    for (vi, v) in adt.variants().iter_enumerated() {
                        let discr = if adt.is_enum() { format!("{}", adt.discriminant_for_variant(tcx, vi).val) } else { "0".into() };
                        let fields: Vec<String> = v
                            .fields
                            .iter()
                            .map(|fd| {
                                obj(vec![
                                    ("name", esc(fd.name.as_str())),
                                    ("vis", esc(&format!("{:?}", fd.vis))),
                                    ("ty", ty_json(tcx, tcx.type_of(fd.did).instantiate_identity().skip_norm_wip())),
                                ])
                            })
                            .collect();
                        vs.push(obj(vec![("name", esc(v.name.as_str())), ("discr", esc(&discr)), ("fields", arr(fields))]));
                    }
                    let ty = tcx.type_of(did).instantiate_identity().skip_norm_wip();
                    let env = TypingEnv::post_analysis(tcx, did);
                    let is_copy = tcx.type_is_copy_modulo_regions(env, ty);
                    adts.push(obj(vec![
                        ("path", esc(&dps(tcx, did))),
                        ("kind", esc(if adt.is_enum() { "enum" } else if adt.is_union() { "union" } else { "struct" })),
                        ("vis", esc(&format!("{:?}", tcx.visibility(did)))),
                        ("copy", b(is_copy)),
                        ("repr", esc(&format!("{:?}", adt.repr().int))),
                        ("generics", generics_json(tcx, did)),
                        ("span", span_json(tcx, tcx.def_span(did))),
                        ("variants", arr(vs)),
                    ]));
                }
                DefKind::Impl { .. } => {
                    let self_ty = tcx.type_of(did).instantiate_identity().skip_norm_wip();
                    let mut f = vec![
                        ("path", esc(&dps(tcx, did))),
                        ("self", ty_json(tcx, self_ty)),
                        ("span", span_json(tcx, tcx.def_span(did))),
                        ("generics", generics_json(tcx, did)),
                        ("automatically_derived", b(tcx.is_automatically_derived(did))),
                    ];
                    if let Some(tr) = tcx.impl_opt_trait_ref(did) {
                        let tr = tr.instantiate_identity().skip_norm_wip();
                        f.push(("trait", esc(&dps(tcx, tr.def_id))));
                        f.push(("trait_krate", esc(tcx.crate_name(tr.def_id.krate).as_str())));
                        f.push(("trait_args", gargs_json(tcx, tr.args)));
                        f.push((
                            "trait_str",
                            esc(&with_no_visible_paths!(with_no_trimmed_paths!(format!("{}", tr.print_only_trait_path())))),
                        ));
                    }
                    let mut items = vec![];
                    for it in tcx.associated_items(did).in_definition_order() {
                        items.push(obj(vec![
                            ("name", esc(it.name().as_str())),
                            ("key", esc(&dps(tcx, it.def_id))),
                            ("kind", esc(&format!("{:?}", tcx.def_kind(it.def_id)).split(' ').next().unwrap_or("").to_string())),
                        ]));
                    }
                    f.push(("items", arr(items)));
                    impls.push(obj(f));
                }
                DefKind::Static { .. } => {
                    statics.push(obj(vec![
                        ("path", esc(&dps(tcx, did))),
                        ("mutable", b(tcx.is_mutable_static(did))),
                        ("span", span_json(tcx, tcx.def_span(did))),
                    ]));
                }
                DefKind::Trait => {
                    let mut items = vec![];
                    for it in tcx.associated_items(did).in_definition_order() {
                        items.push(obj(vec![
                            ("name", esc(it.name().as_str())),
                            ("key", esc(&dps(tcx, it.def_id))),
                            ("has_default", b(tcx.defaultness(it.def_id).has_value())),
                            ("kind", esc(&format!("{:?}", tcx.def_kind(it.def_id)).split(' ').next().unwrap_or("").to_string())),
                        ]));
                    }
                    traits.push(obj(vec![("path", esc(&dps(tcx, did))), ("items", arr(items))]));
                }
                _ => {}
            }
        }
        // crate facts
        let mut crates = vec![];
        for c in tcx.crates(()) {
            crates.push(esc(tcx.crate_name(*c).as_str()));
        }
        let mut features = vec![];
        for (name, val) in tcx.sess.config.iter() {
            if name.as_str() == "feature" {
                if let Some(v) = val {
                    features.push(esc(v.as_str()));
                }
            }
        }
        features.sort();
        let debug_assertions = tcx.sess.opts.debug_assertions;
        let overflow_checks = tcx.sess.overflow_checks();
        let out = obj(vec![
            ("crate", esc(krate.as_str())),
            ("format", "3".to_string()),
            ("crates", arr(crates)),
            ("features", arr(features)),
            ("debug_assertions", b(debug_assertions)),
            ("overflow_checks", b(overflow_checks)),
            ("fns", arr(fns)),
            ("adts", arr(adts)),
            ("impls", arr(impls)),
            ("traits", arr(traits)),
            ("statics", arr(statics)),
        ]);
        let tmp = format!("{}.tmp", path);
        std::fs::write(&tmp, out).unwrap();
        std::fs::rename(&tmp, &path).unwrap();
        eprintln!("HMSA-DRIVER: wrote {}", path);
        Compilation::Continue
    }
}

fn main() {
    let mut args: Vec<String> = std::env::args().collect();
    // RUSTC_WORKSPACE_WRAPPER: argv[1] is the real rustc
    args.remove(1);
    rustc_driver::run_compiler(&args, &mut Cb);
}
