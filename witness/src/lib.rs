//! E4 — compile-fail witnesses (outside-user view) with compiling twins.
//! Each `compile_fail,E0xxx` block must fail with exactly that error code (nightly checks the code);
//! each twin differs only in the offending line and must compile, so that a witness cannot pass
//! merely because its path is wrong.

/// The tuple constructor of a restricted integer is private.
/// ```compile_fail,E0603
/// let _ = helgoboss_midi::U7(200);
/// ```
pub fn w01_newtype_tuple_ctor_private() {}
/// twin
/// ```
/// let _ = helgoboss_midi::U7::new(100);
/// ```
pub fn t01_newtype_tuple_ctor_private() {}

/// The field of a restricted integer cannot be assigned.
/// ```compile_fail,E0616
/// let mut x = helgoboss_midi::U14::new(1); x.0 = 20000;
/// ```
pub fn w02_newtype_field_private() {}
/// twin
/// ```
/// let x = helgoboss_midi::U14::new(1); let _ = x.get();
/// ```
pub fn t02_newtype_field_private() {}

/// `new_unchecked` needs `unsafe`.
/// ```compile_fail,E0133
/// let _ = helgoboss_midi::Channel::new_unchecked(200);
/// ```
pub fn w03_new_unchecked_unsafe() {}
/// twin
/// ```
/// let _ = unsafe { helgoboss_midi::Channel::new_unchecked(10) };
/// ```
pub fn t03_new_unchecked_unsafe() {}

/// `from_bytes_unchecked` needs `unsafe`.
/// ```compile_fail,E0133
/// use helgoboss_midi::*; let _ = RawShortMessage::from_bytes_unchecked((2, U7::MIN, U7::MIN));
/// ```
pub fn w04_from_bytes_unchecked_unsafe() {}
/// twin
/// ```
/// use helgoboss_midi::*; let _ = unsafe { RawShortMessage::from_bytes_unchecked((0x90, U7::MIN, U7::MIN)) };
/// ```
pub fn t04_from_bytes_unchecked_unsafe() {}

/// The tuple of a RawShortMessage is private.
/// ```compile_fail,E0423
/// use helgoboss_midi::*; let _ = RawShortMessage((2, U7::MIN, U7::MIN));
/// ```
pub fn w05_raw_tuple_private() {}
/// twin
/// ```
/// use helgoboss_midi::*; let _ = RawShortMessage::from_bytes((0x90, U7::MIN, U7::MIN));
/// ```
pub fn t05_raw_tuple_private() {}

/// ControlChange14BitMessage cannot be built by a struct literal.
/// ```compile_fail,E0451
/// use helgoboss_midi::*; let _ = ControlChange14BitMessage { channel: Channel::MIN, msb_controller_number: ControllerNumber::new(40), value: U14::MIN };
/// ```
pub fn w06_cc14_fields_private() {}
/// twin
/// ```
/// use helgoboss_midi::*; let _ = ControlChange14BitMessage::new(Channel::MIN, ControllerNumber::new(4), U14::MIN);
/// ```
pub fn t06_cc14_fields_private() {}

/// ParameterNumberMessage cannot be built by a struct literal.
/// ```compile_fail,E0451
/// use helgoboss_midi::*; let _ = ParameterNumberMessage { channel: Channel::MIN, number: U14::MIN, value: U14::MAX, is_registered: false, is_14_bit: false, data_type: DataType::DataEntry };
/// ```
pub fn w07_pnm_fields_private() {}
/// twin
/// ```
/// use helgoboss_midi::*; let _ = ParameterNumberMessage::registered_7_bit(Channel::MIN, U14::MIN, U7::MAX);
/// ```
pub fn t07_pnm_fields_private() {}

/// The per-channel storage of a scanner is private.
/// ```compile_fail,E0616
/// use helgoboss_midi::*; let s = ControlChange14BitMessageScanner::new(); let _ = s.scanner_by_channel;
/// ```
pub fn w08_scanner_storage_private() {}
/// twin
/// ```
/// use helgoboss_midi::*; let mut s = ControlChange14BitMessageScanner::new(); s.reset();
/// ```
pub fn t08_scanner_storage_private() {}

/// There is no infallible conversion from a signed byte into U14.
/// ```compile_fail,E0277
/// let _ = helgoboss_midi::U14::from(-1i8);
/// ```
pub fn w09_no_from_i8_for_u14() {}
/// twin
/// ```
/// use core::convert::TryFrom; let _ = helgoboss_midi::U14::try_from(-1i8);
/// ```
pub fn t09_no_from_i8_for_u14() {}

/// Message and scanner types are `Copy` (they own no heap memory).
/// ```
/// use helgoboss_midi::*; fn c<T: Copy>() {}
/// c::<RawShortMessage>(); c::<StructuredShortMessage>(); c::<ControlChange14BitMessage>(); c::<ParameterNumberMessage>();
/// c::<ControlChange14BitMessageScanner>(); c::<ParameterNumberMessageScanner>(); c::<PollingParameterNumberMessageScanner>();
/// c::<U4>(); c::<U7>(); c::<U14>(); c::<Channel>(); c::<KeyNumber>(); c::<ControllerNumber>();
/// ```
pub fn t10_copy_types() {}
