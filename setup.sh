#!/bin/sh
# Builds the fact-extractor driver (offline, nightly) and warms the fact cache.
set -e
cd "$(dirname "$0")"
export CARGO_NET_OFFLINE=true
(cd driver && cargo +nightly build --release --offline 2>&1 | tail -3)
python3 -m hmsa.facts --warm
